//! Shared enumerators (DESIGN.md section 4).
pub mod echar;
