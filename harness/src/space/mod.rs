//! Shared enumerators (DESIGN.md section 4).
pub mod echar;
pub mod etok;

use crate::core::{Ctx, Space};
use serde_json::{json, Value};

/// A finite list of texts given explicitly.
pub struct TextList {
    pub id: String,
    pub texts: Vec<String>,
    pub per_block: usize,
}

pub enum TextGen {
    Chars(echar::EChar),
    Toks(etok::ETok),
    List(TextList),
}

/// A space of source texts with a text oracle.
pub struct TextSpace {
    pub gen: TextGen,
    pub oracle: fn(&str, &mut Ctx),
    pub timeout_s: u64,
}

impl TextSpace {
    pub fn chars(e: echar::EChar, oracle: fn(&str, &mut Ctx)) -> Box<dyn Space> {
        Box::new(TextSpace { gen: TextGen::Chars(e), oracle, timeout_s: 20 })
    }
    pub fn toks(e: etok::ETok, oracle: fn(&str, &mut Ctx)) -> Box<dyn Space> {
        Box::new(TextSpace { gen: TextGen::Toks(e), oracle, timeout_s: 30 })
    }
    pub fn list(id: &str, texts: Vec<String>, per_block: usize, oracle: fn(&str, &mut Ctx)) -> Box<dyn Space> {
        Box::new(TextSpace { gen: TextGen::List(TextList { id: id.to_string(), texts, per_block }), oracle, timeout_s: 120 })
    }
}

impl Space for TextSpace {
    fn name(&self) -> String {
        match &self.gen {
            TextGen::Chars(e) => format!("E-CHAR/{}/len<={}", e.alpha.id, e.max_len),
            TextGen::Toks(e) => e.name.clone(),
            TextGen::List(l) => l.id.clone(),
        }
    }
    fn describe(&self) -> Value {
        match &self.gen {
            TextGen::Chars(e) => e.describe(),
            TextGen::Toks(e) => e.describe(),
            TextGen::List(l) => json!({"space": l.id, "texts": l.texts.len()}),
        }
    }
    fn num_blocks(&self) -> u64 {
        match &self.gen {
            TextGen::Chars(e) => e.num_blocks(),
            TextGen::Toks(e) => e.num_blocks(),
            TextGen::List(l) => ((l.texts.len() + l.per_block - 1) / l.per_block).max(1) as u64,
        }
    }
    fn run_block(&self, block: u64, ctx: &mut Ctx) {
        let oracle = self.oracle;
        match &self.gen {
            TextGen::Chars(e) => e.block(block, &mut |t| {
                if ctx.begin(|| json!({"text": t})) {
                    oracle(t, ctx);
                }
            }),
            TextGen::Toks(e) => e.block(block, &mut |t, _| {
                if ctx.begin(|| json!({"text": t})) {
                    oracle(t, ctx);
                }
            }),
            TextGen::List(l) => {
                let lo = block as usize * l.per_block;
                let hi = (lo + l.per_block).min(l.texts.len());
                for t in &l.texts[lo.min(hi)..hi] {
                    if ctx.begin(|| json!({"text": t})) {
                        oracle(t, ctx);
                    }
                }
            }
        }
    }
    fn replay(&self, case: &Value, ctx: &mut Ctx) {
        if let Some(t) = case["text"].as_str() {
            ctx.begin(|| json!({"text": t}));
            (self.oracle)(t, ctx);
        }
    }
    fn block_timeout_s(&self) -> u64 {
        self.timeout_s
    }
}
