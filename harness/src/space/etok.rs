//! E-TOK: all token sequences over the *full* lexer-producible token alphabet (DESIGN.md 4.2).
//!
//! The alphabet is derived at run time from `SyntaxKind`: one lexeme per keyword, scalar type,
//! single-character punctuation, literal kind and free-standing token kind.  The derivation is
//! self-checked (lexing a lexeme alone gives back exactly its kind), so a keyword added to the
//! repository enlarges the alphabet automatically and a failed self-check is a machinery error.

use oq3_parser::{LexedStr, SyntaxKind};
use serde_json::{json, Value};

#[derive(Clone, Debug)]
pub struct Lexeme {
    pub text: String,
    pub kind: SyntaxKind,
    /// The lexeme runs to the end of the line (annotation, pragma): a newline must follow.
    pub line: bool,
    /// Only meaningful as the last lexeme of an input (unterminated string / comment).
    pub last_only: bool,
    /// Lexing it reports a lexical error.
    pub lex_error: bool,
}

fn lx(text: &str, kind: SyntaxKind) -> Lexeme {
    Lexeme { text: text.to_string(), kind, line: false, last_only: false, lex_error: false }
}

/// Marker that starts the error of a derivation during which the *subject* panicked: the
/// text after it is the probe.  Such a probe is a witness for the checks, not a machinery
/// error (see `props::c01::tok_space`).
pub const SUBJECT_PANIC: &str = "subject panicked on probe: ";

pub fn subject_panic_probe(err: &str) -> Option<&str> {
    err.strip_prefix(SUBJECT_PANIC)
}

/// Set by the `derive-probe` subcommand: every probe is announced on stdout before it is lexed,
/// so that the driver can name the probe on which the lexer hangs.
pub static TRACE_PROBES: std::sync::atomic::AtomicBool = std::sync::atomic::AtomicBool::new(false);

/// The probe on which a previous derivation (in a watched subprocess) crashed or hung, passed
/// on by the driver to itself and to its workers.
pub const WITNESS_ENV: &str = "VERIF_DERIVE_WITNESS";

/// All tokens of `text` and whether lexing reported no error; a panic of the lexer is an `Err`.
fn lex_all(text: &str) -> Result<(Vec<(SyntaxKind, String)>, bool), String> {
    if TRACE_PROBES.load(std::sync::atomic::Ordering::Relaxed) {
        use std::io::Write;
        let mut o = std::io::stdout();
        let _ = writeln!(o, "PROBE {}", serde_json::json!(text));
        let _ = o.flush();
    }
    crate::core::catch(|| {
        let lexed = LexedStr::new(text);
        let toks = (0..lexed.len()).map(|i| (lexed.kind(i), lexed.text(i).to_string())).collect();
        (toks, lexed.errors_is_empty())
    })
    .map_err(|_| format!("{}{}", SUBJECT_PANIC, text))
}

fn non_trivia(text: &str) -> Result<Vec<(SyntaxKind, String)>, String> {
    Ok(lex_all(text)?.0.into_iter().filter(|(k, _)| !k.is_trivia()).collect())
}

fn kind_name(k: SyntaxKind) -> String {
    format!("{:?}", k)
}

pub struct TokAlphabet {
    pub lexemes: Vec<Lexeme>,
    /// Kinds below `__LAST` that are tokens but that no text produces.
    pub unproducible: Vec<SyntaxKind>,
    /// fuse[i][j]: writing lexeme j directly after lexeme i changes the token stream.
    pub fuse: Vec<Vec<bool>>,
}

/// Derive Sigma-tok.  `with_var` adds Sigma-var (lexemes sharing a kind but driving
/// text-dependent code, and lexemes with lexical errors).
pub fn derive(with_var: bool) -> Result<TokAlphabet, String> {
    if let Ok(w) = std::env::var(WITNESS_ENV) {
        // a watched derivation already died on this probe: do not run into it again
        return Err(format!("{}{}", SUBJECT_PANIC, w));
    }
    let mut lexemes: Vec<Lexeme> = Vec::new();
    let mut unproducible = Vec::new();
    let last = SyntaxKind::__LAST as u16;
    for raw in 0..last {
        let k = SyntaxKind::from(raw);
        let name = kind_name(k);
        if k == SyntaxKind::TOMBSTONE || k == SyntaxKind::EOF {
            continue;
        }
        if k.is_keyword() {
            let text = if name == "O_P_E_N_Q_A_S_M_KW" {
                "OPENQASM".to_string()
            } else {
                name.trim_end_matches("_KW").to_lowercase()
            };
            if SyntaxKind::from_keyword(&text) != Some(k) {
                return Err(format!("keyword kind {} does not round-trip through from_keyword({:?})", name, text));
            }
            lexemes.push(lx(&text, k));
        } else if k.is_scalar_type() {
            let text = name.trim_end_matches("_TY").to_lowercase();
            if SyntaxKind::from_scalar_type(&text) != Some(k) {
                return Err(format!("type kind {} does not round-trip through from_scalar_type({:?})", name, text));
            }
            lexemes.push(lx(&text, k));
        } else if k.is_punct() {
            let mut found = None;
            for c in 33u8..127 {
                let c = c as char;
                if c.is_ascii_alphanumeric() {
                    continue;
                }
                if SyntaxKind::from_char(c) == Some(k) {
                    found = Some(c);
                }
            }
            match found {
                Some(c) => {
                    let cand = lx(&c.to_string(), k);
                    // `#` alone is lexed as an invalid identifier, never as POUND
                    if non_trivia(&cand.text)? == vec![(k, cand.text.clone())] {
                        lexemes.push(cand);
                    } else {
                        unproducible.push(k);
                    }
                }
                None => unproducible.push(k), // composite operators are glued by the parser
            }
        } else if k.is_literal() {
            let text = match k {
                SyntaxKind::INT_NUMBER => "3",
                SyntaxKind::FLOAT_NUMBER => "1.5",
                SyntaxKind::BIT_STRING => "\"01\"",
                SyntaxKind::STRING => "\"s\"",
                _ => {
                    unproducible.push(k);
                    continue;
                }
            };
            lexemes.push(lx(text, k));
        } else {
            match k {
                SyntaxKind::IDENT => lexemes.push(lx("x", k)),
                SyntaxKind::HARDWAREIDENT => lexemes.push(lx("$0", k)),
                SyntaxKind::ERROR => lexemes.push(lx("§", k)),
                SyntaxKind::ANNOTATION => {
                    let mut l = lx("@ann", k);
                    l.line = true;
                    lexemes.push(l);
                }
                SyntaxKind::PRAGMA => {
                    let mut l = lx("pragma x", k);
                    l.line = true;
                    lexemes.push(l);
                }
                SyntaxKind::VERSION_STRING => lexemes.push(lx("OPENQASM 3.0", k)),
                _ => {} // trivia and node kinds
            }
        }
    }
    if with_var {
        for t in ["ns", "im", "dt", "π"] {
            lexemes.push(lx(t, SyntaxKind::IDENT));
        }
        lexemes.push(lx("1.", SyntaxKind::FLOAT_NUMBER));
        lexemes.push(lx("'01'", SyntaxKind::BIT_STRING));
        lexemes.push(lx("0b2", SyntaxKind::INT_NUMBER));
        lexemes.push(lx("#dim", SyntaxKind::DIM_KW));
        for (t, k, last_only) in [
            ("0b", SyntaxKind::INT_NUMBER, false),
            ("1e", SyntaxKind::FLOAT_NUMBER, false),
            ("#", SyntaxKind::IDENT, false),
            ("a😀", SyntaxKind::IDENT, false),
            ("\"abc", SyntaxKind::STRING, true),
            ("/*", SyntaxKind::COMMENT, true),
        ] {
            let mut l = lx(t, k);
            l.lex_error = true;
            l.last_only = last_only;
            lexemes.push(l);
        }
    }
    // self-check: each lexeme alone lexes to exactly its kind and text
    for l in &lexemes {
        // the version header is only well-formed when followed by white space or `;`
        let probe = if l.kind == SyntaxKind::VERSION_STRING { format!("{} ", l.text) } else { l.text.clone() };
        let (toks, errors_is_empty) = lex_all(&probe)?;
        let all: Vec<(SyntaxKind, String)> = toks
            .into_iter()
            .filter(|(k, _)| !(l.kind == SyntaxKind::VERSION_STRING && *k == SyntaxKind::WHITESPACE))
            .collect();
        if all != vec![(l.kind, l.text.clone())] {
            return Err(format!("alphabet self-check: lexeme {:?} expected kind {:?}, lexer gives {:?}", l.text, l.kind, all));
        }
        if l.lex_error == errors_is_empty {
            return Err(format!("alphabet self-check: lexeme {:?}: lexical error expectation {} is wrong", l.text, l.lex_error));
        }
    }
    let n = lexemes.len();
    let mut fuse = vec![vec![false; n]; n];
    for i in 0..n {
        for j in 0..n {
            let a = &lexemes[i];
            let b = &lexemes[j];
            if a.line || a.last_only {
                fuse[i][j] = true;
                continue;
            }
            let joined = format!("{}{}", a.text, b.text);
            let got = non_trivia(&joined)?;
            let want: Vec<(SyntaxKind, String)> = [a, b]
                .iter()
                .filter(|l| !l.kind.is_trivia())
                .map(|l| (l.kind, l.text.clone()))
                .collect();
            fuse[i][j] = got != want;
        }
    }
    Ok(TokAlphabet { lexemes, unproducible, fuse })
}

#[derive(Clone, Copy, PartialEq, Eq, Debug)]
pub enum Render {
    /// one space between lexemes (newline after line-terminated lexemes)
    Spaced,
    /// nothing between lexemes unless they would fuse
    Tight,
    /// an empty block comment, and no white space, between lexemes
    Commented,
}

pub struct ETok {
    pub alpha: TokAlphabet,
    pub max_len: usize,
    pub render: Render,
    pub name: String,
}

impl ETok {
    pub fn n(&self) -> u64 {
        self.alpha.lexemes.len() as u64
    }
    pub fn num_blocks(&self) -> u64 {
        if self.max_len < 2 {
            1
        } else {
            1 + self.n() * self.n()
        }
    }
    pub fn cardinality(&self) -> u64 {
        (0..=self.max_len as u32).map(|l| self.n().pow(l)).sum()
    }
    pub fn describe(&self) -> Value {
        json!({"space": "E-TOK", "alphabet_size": self.n(), "max_len_tokens": self.max_len,
               "rendering": format!("{:?}", self.render),
               "cardinality_upper_bound": self.cardinality(),
               "lexemes": self.alpha.lexemes.iter().map(|l| l.text.clone()).collect::<Vec<_>>(),
               "unproducible_kinds": self.alpha.unproducible.iter().map(|k| format!("{:?}", k)).collect::<Vec<_>>(),
               "note": "sequences with an unterminated lexeme before the last position are skipped"})
    }

    pub fn render_seq(&self, idx: &[usize], out: &mut String) {
        out.clear();
        let ls = &self.alpha.lexemes;
        for (p, i) in idx.iter().enumerate() {
            if p > 0 {
                let prev = &ls[idx[p - 1]];
                if prev.line {
                    out.push('\n');
                } else {
                    match self.render {
                        Render::Spaced => out.push(' '),
                        Render::Tight => {
                            if self.alpha.fuse[idx[p - 1]][*i] {
                                out.push(' ')
                            }
                        }
                        Render::Commented => {
                            // `/` directly before the comment would start a line comment
                            if prev.text.ends_with('/') {
                                out.push(' ');
                            }
                            out.push_str("/**/")
                        }
                    }
                }
            }
            out.push_str(&ls[*i].text);
        }
    }

    fn valid(&self, idx: &[usize]) -> bool {
        let ls = &self.alpha.lexemes;
        idx.iter().enumerate().all(|(p, i)| !ls[*i].last_only || p + 1 == idx.len())
    }

    /// Call `f(text, token_indices)` on every sequence of the block, shortest first.
    pub fn block(&self, b: u64, f: &mut dyn FnMut(&str, &[usize])) {
        let n = self.alpha.lexemes.len();
        let mut text = String::new();
        if b == 0 {
            f("", &[]);
            if self.max_len >= 1 {
                for i in 0..n {
                    self.render_seq(&[i], &mut text);
                    f(&text, &[i]);
                }
            }
            return;
        }
        let i = ((b - 1) / n as u64) as usize;
        let j = ((b - 1) % n as u64) as usize;
        for extra in 0..=(self.max_len - 2) {
            let mut idx = vec![0usize; extra + 2];
            idx[0] = i;
            idx[1] = j;
            'odometer: loop {
                if self.valid(&idx) {
                    self.render_seq(&idx, &mut text);
                    f(&text, &idx);
                }
                let mut p = extra + 2;
                loop {
                    if p == 2 {
                        break 'odometer;
                    }
                    p -= 1;
                    idx[p] += 1;
                    if idx[p] < n {
                        break;
                    }
                    idx[p] = 0;
                }
            }
        }
    }
}
