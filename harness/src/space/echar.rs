//! E-CHAR: all strings over small alphabets of lexically critical atoms (DESIGN.md 4.1).
//!
//! A symbol is a character or a short atom.  Strings are enumerated shortest-first inside
//! a block; block 0 holds the strings of length 0 and 1, block 1 + i*n + j the strings of
//! length >= 2 that start with symbols i, j.

use serde_json::{json, Value};

pub struct Alphabet {
    pub id: &'static str,
    pub symbols: Vec<&'static str>,
}

pub fn alphabets() -> Vec<Alphabet> {
    vec![
        Alphabet { id: "A-num", symbols: vec!["0", "1", "9", ".", "e", "E", "_", "x", "b", "o", "+", "-", "a", "s"] },
        Alphabet { id: "A-str", symbols: vec!["\"", "'", "\\", "\n", "/", "*", "0", "1", "_", "a", " ", "\0", "é", "😀"] },
        Alphabet { id: "A-dir", symbols: vec!["pragma", "#pragma", "OPENQASM", "#dim", " ", "\n", "3", ".", "0", ";", "x", "$", "@", "#"] },
        Alphabet { id: "A-unit", symbols: vec!["1", "ns", "µs", "im", "dt", "s", "m", "u", "µ", ".", "e", "_", " ", "μ"] },
        // line structure: carriage returns, tabs, form feeds and the line-oriented lexemes
        Alphabet { id: "A-line", symbols: vec!["\r", "\n", "\t", " ", "pragma", "@a", "//", "/*", "*/", "x", ";", "Å", "\u{b}", "\u{c}"] },
        // upper-case spellings and literal suffixes
        Alphabet { id: "A-case", symbols: vec!["0", "1", "B", "X", "O", "b", "x", "E", "_", "F", "f", "g", ".", "im"] },
        // unusual Unicode: byte order mark, no-break space, zero-width space, line separator,
        // next line, micro sign and Greek mu, pi, combining accent
        Alphabet { id: "A-uni", symbols: vec!["\u{feff}", "\u{a0}", "\u{200b}", "\u{2028}", "\u{85}", "µ", "μ", "π", "é", "\u{301}", "x", " ", "1", ";"] },
        // identifier-like lexemes: hardware qubits, underscores, directive prefixes
        Alphabet { id: "A-ident", symbols: vec!["$", "_", "0", "1", "a", "é", "#", "@", "pragma", "dim", " ", "\n", "x", "😀"] },
        // code points at the borders of the ASCII table and of the UTF-8 lengths
        Alphabet { id: "A-bound", symbols: vec!["\u{7f}", "\u{80}", "\u{81}", "\u{ff}", "\u{100}", "\u{7ff}", "\u{800}", "\u{ffff}", "\u{10000}", "\u{10ffff}", "\u{1}", " ", "a", "1"] },
        Alphabet { id: "A-punct", symbols: vec!["<", ">", "=", "!", "&", "|", "+", "-", "*", ".", ":", "/", " ", "a"] },
    ]
}

pub struct EChar {
    pub alpha: Alphabet,
    pub max_len: usize,
}

impl EChar {
    pub fn n(&self) -> u64 {
        self.alpha.symbols.len() as u64
    }
    pub fn num_blocks(&self) -> u64 {
        if self.max_len < 2 {
            1
        } else {
            1 + self.n() * self.n()
        }
    }
    pub fn cardinality(&self) -> u64 {
        (0..=self.max_len as u32).map(|l| self.n().pow(l)).sum()
    }
    pub fn describe(&self) -> Value {
        json!({"space": "E-CHAR", "alphabet": self.alpha.id,
               "symbols": self.alpha.symbols, "max_len_symbols": self.max_len,
               "cardinality": self.cardinality()})
    }
    /// Call `f` on every string of the block.
    pub fn block(&self, b: u64, f: &mut dyn FnMut(&str)) {
        let syms = &self.alpha.symbols;
        if b == 0 {
            f("");
            if self.max_len >= 1 {
                for s in syms {
                    f(s);
                }
            }
            return;
        }
        let n = self.n();
        let i = ((b - 1) / n) as usize;
        let j = ((b - 1) % n) as usize;
        let mut buf = String::new();
        buf.push_str(syms[i]);
        buf.push_str(syms[j]);
        // shortest first: iterate by total length
        for extra in 0..=(self.max_len - 2) {
            let mut idx = vec![0usize; extra];
            'odometer: loop {
                let base = buf.len();
                for k in &idx {
                    buf.push_str(syms[*k]);
                }
                f(&buf);
                buf.truncate(base);
                let mut p = extra;
                loop {
                    if p == 0 {
                        break 'odometer;
                    }
                    p -= 1;
                    idx[p] += 1;
                    if idx[p] < syms.len() {
                        break;
                    }
                    idx[p] = 0;
                }
            }
        }
    }
}
