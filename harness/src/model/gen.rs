//! Enumerators of model programs: leaf statement templates, compound-statement contexts,
//! spines, sequences, expression trees and expression positions (DESIGN.md 4.4).
//! Every enumeration is a function from an index to a program, so that spaces can be cut
//! into blocks and a single case can be regenerated for a replay.

use super::prog::*;

fn s(x: &str) -> String {
    x.to_string()
}
fn opd(n: &str) -> Operand {
    Operand::Id(s(n))
}
fn opd_i(n: &str, i: u64) -> Operand {
    Operand::Indexed(s(n), vec![Index::List(vec![IndexItem::E(int(i))])])
}
fn flt(t: &str) -> Expr {
    Expr::Float(s(t))
}

/// Declarations that make the leaf templates semantically meaningful.  Names used by the
/// templates: qubits `q` (register of 4) and `r`, classical `a b c` (int), `u` (uint[8]),
/// `f` (float[64]), `m` (bit[4]), `k` (bit), `d` (duration), `ang` (angle[20]), gates `g1 g2`
/// and the subroutine `f1`.
pub fn prelude() -> Vec<Stmt> {
    vec![
        Stmt::Include(s("\"stdgates.inc\"")),
        Stmt::Qubit { size: Some(int(4)), name: s("q") },
        Stmt::Qubit { size: None, name: s("r") },
        Stmt::Decl { konst: false, ty: Ty::plain("int"), name: s("a"), init: Some(int(1)) },
        Stmt::Decl { konst: false, ty: Ty::plain("int"), name: s("b"), init: Some(int(2)) },
        Stmt::Decl { konst: false, ty: Ty::plain("int"), name: s("c"), init: Some(int(3)) },
        Stmt::Decl { konst: false, ty: Ty::w("uint", 8), name: s("u"), init: None },
        Stmt::Decl { konst: false, ty: Ty::w("float", 64), name: s("f"), init: None },
        Stmt::Decl { konst: false, ty: Ty::w("bit", 4), name: s("m"), init: None },
        Stmt::Decl { konst: false, ty: Ty::plain("bit"), name: s("k"), init: None },
        Stmt::Decl { konst: false, ty: Ty::plain("duration"), name: s("d"), init: Some(Expr::Timing(s("10"), false, "ns")) },
        Stmt::Decl { konst: false, ty: Ty::w("angle", 20), name: s("ang"), init: None },
        Stmt::Gate { name: s("g1"), params: None, qubits: vec![s("x1")], body: vec![] },
        Stmt::Gate {
            name: s("g2"),
            params: Some(vec![s("t1"), s("t2")]),
            qubits: vec![s("x1"), s("x2")],
            body: vec![Stmt::GateCall { mods: vec![], name: s("rx"), args: Some(vec![id("t1")]), operands: vec![opd("x1")] }],
        },
        Stmt::Def {
            name: s("f1"),
            params: vec![(Ty::plain("int"), s("p1")), (Ty::plain("int"), s("p2"))],
            ret: Some(Ty::plain("int")),
            body: vec![Stmt::Return(Some(bin(BinOp::Add, id("p1"), id("p2"))))],
        },
    ]
}

/// (name, statement, global_only, uses_assign_binary) — leaf templates covering every
/// statement kind and sub-form of the claimed grammar.
#[derive(Clone)]
pub struct Leaf {
    pub name: &'static str,
    pub stmt: Stmt,
    /// only legal at global scope (qubit / gate / def declarations, include)
    pub global_only: bool,
    /// semantic analysis of this form is supported by the front end (used by C06)
    pub sema: bool,
}

fn leaf(name: &'static str, stmt: Stmt) -> Leaf {
    Leaf { name, stmt, global_only: false, sema: true }
}
fn gleaf(name: &'static str, stmt: Stmt) -> Leaf {
    Leaf { name, stmt, global_only: true, sema: true }
}
fn nosema(mut l: Leaf) -> Leaf {
    l.sema = false;
    l
}

/// The grid leaves: every quantum statement form with every operand form, every declaration
/// qualifier with every scalar type, every compound assignment operator with every target form.
/// `sema` marks the combinations the analyser supports (used by C06).
pub fn grid_leaves() -> Vec<Leaf> {
    static GRID: std::sync::OnceLock<Vec<Leaf>> = std::sync::OnceLock::new();
    GRID.get_or_init(build_grid).clone()
}

fn build_grid() -> Vec<Leaf> {
    fn name(t: String) -> &'static str {
        Box::leak(t.into_boxed_str())
    }
    let gc = |mods: Vec<Modifier>, name: &str, args: Option<Vec<Expr>>, operands: Vec<Operand>| Stmt::GateCall { mods, name: s(name), args, operands };
    let mut v = Vec::new();
    // (name, operand, analysable)
    let operands: Vec<(&str, Operand, bool)> = vec![
        ("id", opd("r"), true),
        ("hw", Operand::Hw(s("$0")), true),
        ("hw2", Operand::Hw(s("$12")), true),
        ("idx", opd_i("q", 3), true),
        ("idx_expr", Operand::Indexed(s("q"), vec![Index::List(vec![IndexItem::E(bin(BinOp::Add, id("a"), int(1)))])]), false),
        ("idx_range", Operand::Indexed(s("q"), vec![Index::List(vec![IndexItem::Range(int(0), None, int(1))])]), false),
        ("idx_range3", Operand::Indexed(s("q"), vec![Index::List(vec![IndexItem::Range(int(0), Some(int(2)), int(3))])]), false),
        ("reg", opd("q"), true),
    ];
    for (on, o, osema) in &operands {
        let forms: Vec<(&str, Stmt, bool)> = vec![
            ("reset", Stmt::Reset(o.clone()), true),
            ("measure_stmt", Stmt::ExprStmt(Expr::Measure(o.clone())), true),
            ("measure_assign", Stmt::Assign { target: opd("k"), op: None, value: Expr::Measure(o.clone()) }, false),
            ("measure_decl", Stmt::Decl { konst: false, ty: Ty::plain("bit"), name: s("w1"), init: Some(Expr::Measure(o.clone())) }, false),
            ("barrier1", Stmt::Barrier(vec![o.clone()]), true),
            ("barrier2", Stmt::Barrier(vec![opd("r"), o.clone()]), true),
            ("delay", Stmt::Delay(Expr::Timing(s("10"), false, "ns"), vec![o.clone()]), true),
            ("delay2", Stmt::Delay(id("d"), vec![o.clone(), opd("r")]), true),
            ("call", gc(vec![], "h", None, vec![o.clone()]), true),
            ("call_param", gc(vec![], "rx", Some(vec![flt("0.5")]), vec![o.clone()]), true),
            ("call_U", gc(vec![], "U", Some(vec![int(1), int(2), int(3)]), vec![o.clone()]), true),
            ("call_user", gc(vec![], "g1", None, vec![o.clone()]), true),
            ("call_second", gc(vec![], "cx", None, vec![opd("r"), o.clone()]), true),
            ("call_inv", gc(vec![Modifier::Inv], "h", None, vec![o.clone()]), true),
            ("call_pow", gc(vec![Modifier::Pow(int(2))], "h", None, vec![o.clone()]), true),
            ("call_ctrl", gc(vec![Modifier::Ctrl(None)], "x", None, vec![o.clone(), opd("r")]), true),
            ("call_negctrl2", gc(vec![Modifier::NegCtrl(Some(int(2)))], "x", None, vec![opd("r"), o.clone(), opd_i("q", 1)]), true),
        ];
        for (fname, st, fsema) in forms {
            v.push(Leaf { name: name(format!("grid/{}/{}", fname, on)), stmt: st, global_only: false, sema: *osema && fsema });
        }
    }
    // gate modifiers: every modifier kind with every argument form (none, 0, 1, 2, 3, another
    // radix, a name, an expression, redundant parentheses), alone and in chains of two
    let margs: Vec<(&str, Option<Expr>)> = vec![
        ("none", None),
        ("0", Some(int(0))),
        ("1", Some(int(1))),
        ("2", Some(int(2))),
        ("3", Some(int(3))),
        ("hex1", Some(Expr::Int(s("0x1")))),
        ("bin10", Some(Expr::Int(s("0b10")))),
        ("id", Some(id("a"))),
        ("sum", Some(bin(BinOp::Add, id("a"), int(1)))),
        ("paren1", Some(Expr::Paren(Box::new(int(1))))),
    ];
    let three = || vec![opd_i("q", 0), opd_i("q", 1), opd_i("q", 2)];
    let mk = |kind: usize, a: &Option<Expr>| -> Option<Modifier> {
        match (kind, a) {
            (0, a) => Some(Modifier::Ctrl(a.clone())),
            (1, a) => Some(Modifier::NegCtrl(a.clone())),
            (2, Some(e)) => Some(Modifier::Pow(e.clone())),
            (3, None) => Some(Modifier::Inv),
            _ => None,
        }
    };
    let kinds = ["ctrl", "negctrl", "pow", "inv"];
    for (k1, kn1) in kinds.iter().enumerate() {
        for (an1, a1) in &margs {
            let m1 = match mk(k1, a1) {
                Some(m) => m,
                None => continue,
            };
            v.push(Leaf { name: name(format!("grid/modifier/{}/{}", kn1, an1)), stmt: gc(vec![m1.clone()], "x", None, three()), global_only: false, sema: true });
            for (k2, kn2) in kinds.iter().enumerate() {
                for (an2, a2) in margs.iter().filter(|(n, _)| matches!(*n, "none" | "1" | "2" | "id")) {
                    if let Some(m2) = mk(k2, a2) {
                        v.push(Leaf { name: name(format!("grid/modifier2/{}/{}/{}/{}", kn1, an1, kn2, an2)), stmt: gc(vec![m1.clone(), m2], "x", None, three()), global_only: false, sema: true });
                    }
                }
            }
        }
    }
    // delay designators: every literal class with every unit, and expressions
    let mut designators: Vec<(String, Expr)> = Vec::new();
    for unit in ["ns", "us", "µs", "ms", "s", "dt"] {
        designators.push((format!("int_{}", unit), Expr::Timing(s("100"), false, unit)));
        designators.push((format!("float_{}", unit), Expr::Timing(s("2.5"), true, unit)));
    }
    designators.push((s("exp_dt"), Expr::Timing(s("1e3"), true, "dt")));
    designators.push((s("dot_ms"), Expr::Timing(s(".5"), true, "ms")));
    designators.push((s("trail_ns"), Expr::Timing(s("5."), true, "ns")));
    designators.push((s("mul"), bin(BinOp::Mul, Expr::Timing(s("2.5"), true, "ns"), int(2))));
    designators.push((s("mul_id"), bin(BinOp::Mul, int(2), id("d"))));
    designators.push((s("add"), bin(BinOp::Add, id("d"), Expr::Timing(s("10"), false, "ns"))));
    designators.push((s("paren"), Expr::Paren(Box::new(id("d")))));
    designators.push((s("neg"), un(UnOp::Neg, id("d"))));
    for (dn, d) in designators {
        v.push(Leaf { name: name(format!("grid/delay_designator/{}", dn)), stmt: Stmt::Delay(d.clone(), vec![opd("r")]), global_only: false, sema: false });
        v.push(Leaf { name: name(format!("grid/delay_designator_noop/{}", dn)), stmt: Stmt::Delay(d.clone(), vec![opd_i("q", 0), Operand::Hw(s("$1"))]), global_only: false, sema: false });
        v.push(Leaf { name: name(format!("grid/duration_init/{}", dn)), stmt: Stmt::Decl { konst: false, ty: Ty::plain("duration"), name: s("wd1"), init: Some(d) }, global_only: false, sema: false });
    }
    // declarations: qualifier x type
    let types: Vec<(Ty, Expr)> = vec![
        (Ty::plain("int"), int(1)),
        (Ty::w("int", 8), int(1)),
        (Ty::plain("uint"), int(1)),
        (Ty::w("uint", 16), int(1)),
        (Ty::plain("float"), flt("1.5")),
        (Ty::w("float", 32), flt("1.5")),
        (Ty::plain("angle"), flt("1.5")),
        (Ty::w("angle", 8), flt("1.5")),
        (Ty::plain("bool"), Expr::Bool(false)),
        (Ty::plain("bit"), int(1)),
        (Ty::w("bit", 4), Expr::Bits(s("\"0101\""))),
        (Ty::plain("complex"), Expr::Timing(s("2.0"), true, "im")),
        (Ty { base: "complex", width: Some(Box::new(Expr::Int(s("32")))) }, Expr::Timing(s("2.0"), true, "im")),
        (Ty::plain("duration"), Expr::Timing(s("10"), false, "ns")),
        (Ty::plain("stretch"), Expr::Timing(s("10"), false, "ns")),
        (Ty { base: "int", width: Some(Box::new(bin(BinOp::Mul, int(2), id("c")))) }, int(1)),
    ];
    for (ti, (ty, lit)) in types.iter().enumerate() {
        let tn = format!("{}{}", ty.base, if ty.width.is_some() { "_w" } else { "" });
        let nm = |q: &str| s(&format!("w{}{}", q, ti));
        v.push(Leaf { name: name(format!("grid/decl/{}#{}", tn, ti)), stmt: Stmt::Decl { konst: false, ty: ty.clone(), name: nm("p"), init: None }, global_only: false, sema: false });
        v.push(Leaf { name: name(format!("grid/decl_init/{}#{}", tn, ti)), stmt: Stmt::Decl { konst: false, ty: ty.clone(), name: nm("i"), init: Some(lit.clone()) }, global_only: false, sema: false });
        v.push(Leaf { name: name(format!("grid/decl_init_id/{}#{}", tn, ti)), stmt: Stmt::Decl { konst: false, ty: ty.clone(), name: nm("j"), init: Some(id("a")) }, global_only: false, sema: false });
        v.push(Leaf { name: name(format!("grid/const/{}#{}", tn, ti)), stmt: Stmt::Decl { konst: true, ty: ty.clone(), name: nm("c"), init: Some(lit.clone()) }, global_only: false, sema: false });
        v.push(Leaf { name: name(format!("grid/input/{}#{}", tn, ti)), stmt: Stmt::Io { input: true, ty: ty.clone(), name: nm("n") }, global_only: true, sema: false });
        v.push(Leaf { name: name(format!("grid/output/{}#{}", tn, ti)), stmt: Stmt::Io { input: false, ty: ty.clone(), name: nm("o") }, global_only: true, sema: false });
    }
    // compound assignments: operator x target
    let targets: Vec<(&str, Operand)> = vec![
        ("id", opd("a")),
        ("idx", opd_i("m", 0)),
        ("idx_range", Operand::Indexed(s("m"), vec![Index::List(vec![IndexItem::Range(int(0), None, int(1))])])),
    ];
    for (tn, t) in &targets {
        v.push(Leaf { name: name(format!("grid/assign/=/{}", tn)), stmt: Stmt::Assign { target: t.clone(), op: None, value: int(1) }, global_only: false, sema: false });
        // plain assignment of every value form (the analyser supports these)
        let values: Vec<(&str, Expr)> = vec![
            ("id", id("k")),
            ("id_int", id("b")),
            ("indexed", Expr::Index(Box::new(id("m")), Index::List(vec![IndexItem::E(int(1))]))),
            ("call", Expr::Call(s("f1"), vec![id("b"), id("c")])),
            ("cast", Expr::Cast(Ty::plain("int"), Box::new(id("f")))),
            ("neg", un(UnOp::Neg, int(5))),
            ("bool", Expr::Bool(true)),
            ("paren", Expr::Paren(Box::new(bin(BinOp::Add, id("b"), id("c"))))),
        ];
        for (vn, val) in values {
            v.push(Leaf { name: name(format!("grid/assign_value/{}/{}", vn, tn)), stmt: Stmt::Assign { target: t.clone(), op: None, value: val }, global_only: false, sema: *tn != "idx_range" });
        }
        for op in BINOPS {
            // the OpenQASM 3 compound assignment operators
            if matches!(op, BinOp::Add | BinOp::Sub | BinOp::Mul | BinOp::Div | BinOp::Rem | BinOp::Pow | BinOp::BitAnd | BinOp::BitOr | BinOp::BitXor | BinOp::Shl | BinOp::Shr) {
                v.push(Leaf { name: name(format!("grid/assign/{}=/{}", op.text(), tn)), stmt: Stmt::Assign { target: t.clone(), op: Some(op), value: id("b") }, global_only: false, sema: false });
            }
        }
    }
    v
}

pub fn leaves() -> Vec<Leaf> {
    let gc = |mods: Vec<Modifier>, name: &str, args: Option<Vec<Expr>>, operands: Vec<Operand>| Stmt::GateCall { mods, name: s(name), args, operands };
    vec![
        leaf("decl_int", Stmt::Decl { konst: false, ty: Ty::plain("int"), name: s("v1"), init: None }),
        leaf("decl_int_w_init", Stmt::Decl { konst: false, ty: Ty::w("int", 32), name: s("v2"), init: Some(int(7)) }),
        leaf("decl_uint", Stmt::Decl { konst: false, ty: Ty::w("uint", 8), name: s("v3"), init: Some(int(2)) }),
        leaf("decl_float", Stmt::Decl { konst: false, ty: Ty::w("float", 64), name: s("v4"), init: Some(flt("1.5")) }),
        leaf("decl_angle", Stmt::Decl { konst: false, ty: Ty::w("angle", 20), name: s("v5"), init: None }),
        leaf("decl_bool", Stmt::Decl { konst: false, ty: Ty::plain("bool"), name: s("v6"), init: Some(Expr::Bool(true)) }),
        leaf("decl_bit", Stmt::Decl { konst: false, ty: Ty::plain("bit"), name: s("v7"), init: None }),
        leaf("decl_bitreg", Stmt::Decl { konst: false, ty: Ty::w("bit", 4), name: s("v8"), init: Some(Expr::Bits(s("\"0101\""))) }),
        leaf("decl_complex_w", Stmt::Decl { konst: false, ty: Ty::w("complex", 64), name: s("v9"), init: Some(Expr::Timing(s("2.0"), true, "im")) }),
        leaf("decl_complex", Stmt::Decl { konst: false, ty: Ty::plain("complex"), name: s("v10"), init: None }),
        leaf("decl_complexf", Stmt::Decl { konst: false, ty: Ty::plain("complexf"), name: s("v11"), init: None }),
        leaf("decl_duration", Stmt::Decl { konst: false, ty: Ty::plain("duration"), name: s("v12"), init: Some(Expr::Timing(s("10"), false, "ns")) }),
        leaf("decl_stretch", Stmt::Decl { konst: false, ty: Ty::plain("stretch"), name: s("v13"), init: None }),
        leaf("decl_const", Stmt::Decl { konst: true, ty: Ty::w("int", 8), name: s("v14"), init: Some(int(3)) }),
        leaf("decl_init_binary", Stmt::Decl { konst: false, ty: Ty::plain("int"), name: s("v15"), init: Some(bin(BinOp::Add, id("a"), bin(BinOp::Mul, id("b"), id("c")))) }),
        leaf("decl_init_call", Stmt::Decl { konst: false, ty: Ty::plain("int"), name: s("v16"), init: Some(Expr::Call(s("f1"), vec![id("a"), int(2)])) }),
        leaf("decl_init_cast", Stmt::Decl { konst: false, ty: Ty::w("float", 64), name: s("v17"), init: Some(Expr::Cast(Ty::w("float", 64), Box::new(id("a")))) }),
        leaf("decl_init_measure", Stmt::Decl { konst: false, ty: Ty::plain("bit"), name: s("v18"), init: Some(Expr::Measure(opd("r"))) }),
        leaf("decl_init_neg", Stmt::Decl { konst: false, ty: Ty::plain("int"), name: s("v19"), init: Some(un(UnOp::Neg, int(5))) }),
        leaf("decl_init_neg_float", Stmt::Decl { konst: false, ty: Ty::w("float", 64), name: s("v39"), init: Some(un(UnOp::Neg, flt("1.5"))) }),
        gleaf("io_input", Stmt::Io { input: true, ty: Ty::w("int", 8), name: s("v20") }),
        gleaf("io_output", Stmt::Io { input: false, ty: Ty::plain("bit"), name: s("v21") }),
        gleaf("qubit", Stmt::Qubit { size: None, name: s("v22") }),
        gleaf("qubit_reg", Stmt::Qubit { size: Some(int(2)), name: s("v23") }),
        leaf("alias", Stmt::Alias { name: s("v24"), value: Expr::Index(Box::new(id("q")), Index::List(vec![IndexItem::Range(int(0), None, int(1))])) }),
        leaf("assign_lit", Stmt::Assign { target: opd("a"), op: None, value: int(1) }),
        leaf("assign_id", Stmt::Assign { target: opd("a"), op: None, value: id("b") }),
        leaf("assign_indexed_measure", Stmt::Assign { target: opd_i("m", 0), op: None, value: Expr::Measure(opd_i("q", 0)) }),
        leaf("assign_measure_reg", Stmt::Assign { target: opd("m"), op: None, value: Expr::Measure(opd("q")) }),
        leaf("assign_call", Stmt::Assign { target: opd("a"), op: None, value: Expr::Call(s("f1"), vec![id("b"), id("c")]) }),
        nosema(leaf("assign_binary", Stmt::Assign { target: opd("a"), op: None, value: bin(BinOp::Add, id("b"), id("c")) })),
        nosema(leaf("assign_compound", Stmt::Assign { target: opd("a"), op: Some(BinOp::Add), value: int(1) })),
        leaf("expr_call", Stmt::ExprStmt(Expr::Call(s("f1"), vec![id("a"), int(2)]))),
        leaf("expr_measure", Stmt::ExprStmt(Expr::Measure(opd("r")))),
        leaf("expr_binary", Stmt::ExprStmt(bin(BinOp::Sub, id("a"), id("b")))),
        leaf("expr_neg_imag_float", Stmt::ExprStmt(un(UnOp::Neg, Expr::Timing(s("2.5"), true, "im")))),
        leaf("expr_neg_imag_int", Stmt::ExprStmt(un(UnOp::Neg, Expr::Timing(s("2"), false, "im")))),
        leaf("expr_imag_float", Stmt::ExprStmt(Expr::Timing(s("2.5"), true, "im"))),
        leaf("gate_call", gc(vec![], "h", None, vec![opd_i("q", 0)])),
        leaf("gate_call_2q", gc(vec![], "cx", None, vec![opd_i("q", 0), opd_i("q", 1)])),
        leaf("gate_call_param", gc(vec![], "rx", Some(vec![flt("0.5")]), vec![opd("r")])),
        leaf("gate_call_U", gc(vec![], "U", Some(vec![int(1), id("f"), bin(BinOp::Div, id("pi"), int(2))]), vec![opd("r")])),
        leaf("gate_call_hw", gc(vec![], "h", None, vec![Operand::Hw(s("$0"))])),
        leaf("gate_call_user", gc(vec![], "g2", Some(vec![int(1), int(2)]), vec![opd_i("q", 2), opd("r")])),
        leaf("gate_inv", gc(vec![Modifier::Inv], "h", None, vec![opd("r")])),
        leaf("gate_pow", gc(vec![Modifier::Pow(int(2))], "h", None, vec![opd("r")])),
        leaf("gate_ctrl", gc(vec![Modifier::Ctrl(None)], "x", None, vec![opd_i("q", 0), opd_i("q", 1)])),
        leaf("gate_ctrl_n", gc(vec![Modifier::Ctrl(Some(int(2)))], "x", None, vec![opd_i("q", 0), opd_i("q", 1), opd_i("q", 2)])),
        leaf("gate_negctrl", gc(vec![Modifier::NegCtrl(None)], "x", None, vec![opd_i("q", 0), opd_i("q", 1)])),
        leaf("gate_mods_chain", gc(vec![Modifier::Inv, Modifier::Pow(flt("0.5")), Modifier::Ctrl(None)], "rz", Some(vec![id("f")]), vec![opd_i("q", 0), opd_i("q", 1)])),
        leaf("gphase", Stmt::GPhase { mods: vec![], arg: flt("0.5"), operands: vec![] }),
        nosema(leaf("gphase_ctrl", Stmt::GPhase { mods: vec![Modifier::Ctrl(None)], arg: flt("0.1"), operands: vec![opd("r")] })),
        leaf("gphase_inv", Stmt::GPhase { mods: vec![Modifier::Inv], arg: flt("0.2"), operands: vec![] }),
        leaf("reset", Stmt::Reset(opd("r"))),
        leaf("reset_indexed", Stmt::Reset(opd_i("q", 1))),
        leaf("barrier", Stmt::Barrier(vec![opd_i("q", 0), opd("r")])),
        nosema(leaf("barrier_all", Stmt::Barrier(vec![]))),
        leaf("delay", Stmt::Delay(Expr::Timing(s("10"), false, "ns"), vec![opd("r")])),
        leaf("delay_id", Stmt::Delay(id("d"), vec![opd_i("q", 0), opd_i("q", 1)])),
        nosema(leaf("delay_bare", Stmt::Delay(Expr::Timing(s("10"), false, "ns"), vec![]))),
        leaf("delay_micro", Stmt::Delay(Expr::Timing(s("20"), false, "µs"), vec![opd("r")])),
        leaf("decl_duration_float", Stmt::Decl { konst: false, ty: Ty::plain("duration"), name: s("v30"), init: Some(Expr::Timing(s("2.5"), true, "µs")) }),
        leaf("for_set_repeat", Stmt::For { ty: Ty::plain("int"), var: s("i9"), iter: ForIter::Set(vec![int(1), int(1), int(2)]), body: Body::block(vec![]) }),
        leaf("for_set_ids", Stmt::For { ty: Ty::plain("int"), var: s("i8"), iter: ForIter::Set(vec![id("a"), id("a")]), body: Body::single(Stmt::Assign { target: Operand::Id(s("b")), op: None, value: int(7) }) }),
        leaf("if_empty_else", Stmt::If { cond: bin(BinOp::Eq, id("a"), int(7)), then: Body::block(vec![Stmt::Assign { target: Operand::Id(s("a")), op: None, value: int(8) }]), els: Some(Body::block(vec![])) }),
        leaf("if_empty_then", Stmt::If { cond: bin(BinOp::Eq, id("a"), int(7)), then: Body::block(vec![]), els: Some(Body::single(Stmt::Assign { target: Operand::Id(s("a")), op: None, value: int(9) })) }),
        leaf("if_both_empty", Stmt::If { cond: bin(BinOp::Eq, id("a"), int(7)), then: Body::block(vec![]), els: Some(Body::block(vec![])) }),
        leaf("while_empty", Stmt::While { cond: bin(BinOp::Eq, id("a"), int(7)), body: Body::block(vec![]) }),
        leaf("switch_empty_case", Stmt::Switch { control: id("a"), cases: vec![(vec![int(1)], vec![]), (vec![int(2), int(3)], vec![Stmt::Break])], default: Some(vec![]) }),
        leaf("break", Stmt::Break),
        leaf("continue", Stmt::Continue),
        leaf("end", Stmt::End),
        gleaf("gate_def", Stmt::Gate { name: s("v25"), params: None, qubits: vec![s("y1")], body: vec![gc(vec![], "h", None, vec![opd("y1")])] }),
        gleaf(
            "gate_def_params",
            Stmt::Gate { name: s("v26"), params: Some(vec![s("th")]), qubits: vec![s("y1"), s("y2")], body: vec![gc(vec![], "rx", Some(vec![id("th")]), vec![opd("y1")]), gc(vec![], "cx", None, vec![opd("y1"), opd("y2")])] },
        ),
        nosema(gleaf("gate_def_empty_params", Stmt::Gate { name: s("v27"), params: Some(vec![]), qubits: vec![s("y1")], body: vec![] })),
        gleaf(
            "def",
            Stmt::Def { name: s("v28"), params: vec![(Ty::w("int", 8), s("z1")), (Ty::plain("qubit"), s("z2"))], ret: Some(Ty::plain("bit")), body: vec![Stmt::Return(Some(Expr::Measure(opd("z2"))))] },
        ),
        gleaf("def_noret", Stmt::Def { name: s("v29"), params: vec![], ret: None, body: vec![gc(vec![], "h", None, vec![opd("r")]), Stmt::Return(None)] }),
        leaf("pragma", Stmt::Pragma(s("pragma verif one two"))),
        leaf("pragma_hash", Stmt::Pragma(s("#pragma verif"))),
        leaf("pragma_trailing", Stmt::Pragma(s("pragma verif trailing  \t"))),
        leaf("pragma_inner", Stmt::Pragma(s("pragma   two  words\t."))),
    ]
}

/// A compound-statement context: wraps `inner` (one or more statements) as one of its bodies.
#[derive(Clone, Copy, Debug, PartialEq, Eq)]
pub enum Context {
    IfThenBlock,
    IfThenStmt,
    IfElseThenBlock,
    IfElseThenStmt,
    IfElseElseBlock,
    IfElseElseStmt,
    IfElseBothStmt,
    /// `if (c) <inner> else <statement>`: both bodies single statements, `inner` the first
    IfElseThenBothStmt,
    WhileBlock,
    WhileStmt,
    ForRangeBlock,
    ForSetStmt,
    ForExprBlock,
    Case,
    Default,
    GateBody,
    DefBody,
}

pub const CONTEXTS: [Context; 17] = [
    Context::IfThenBlock,
    Context::IfThenStmt,
    Context::IfElseThenBlock,
    Context::IfElseThenStmt,
    Context::IfElseElseBlock,
    Context::IfElseElseStmt,
    Context::IfElseBothStmt,
    Context::IfElseThenBothStmt,
    Context::WhileBlock,
    Context::WhileStmt,
    Context::ForRangeBlock,
    Context::ForSetStmt,
    Context::ForExprBlock,
    Context::Case,
    Context::Default,
    Context::GateBody,
    Context::DefBody,
];

/// Contexts that differ in accessor logic (reduced set for deep spines).
pub const CONTEXTS_REDUCED: [Context; 7] = [Context::IfThenStmt, Context::IfElseThenStmt, Context::IfElseThenBothStmt, Context::IfElseElseBlock, Context::WhileStmt, Context::ForSetStmt, Context::Case];

fn filler(n: u32) -> Stmt {
    // a default sibling statement, distinguishable by its literal
    Stmt::Assign { target: Operand::Id(s("a")), op: None, value: int(100 + n as u64) }
}

impl Context {
    pub fn is_subroutine(self) -> bool {
        matches!(self, Context::GateBody | Context::DefBody)
    }
    /// Wrap a single statement; `uniq` makes generated names unique.
    pub fn wrap(self, inner: Stmt, uniq: u32) -> Stmt {
        use Context::*;
        let cond = bin(BinOp::Eq, id("a"), int(uniq as u64));
        match self {
            IfThenBlock => Stmt::If { cond, then: Body::block(vec![filler(1), inner, filler(2)]), els: None },
            IfThenStmt => Stmt::If { cond, then: Body::single(inner), els: None },
            IfElseThenBlock => Stmt::If { cond, then: Body::block(vec![inner]), els: Some(Body::block(vec![filler(3)])) },
            IfElseThenStmt => Stmt::If { cond, then: Body::single(inner), els: Some(Body::block(vec![filler(3)])) },
            IfElseElseBlock => Stmt::If { cond, then: Body::single(filler(4)), els: Some(Body::block(vec![filler(5), inner])) },
            IfElseElseStmt => Stmt::If { cond, then: Body::block(vec![filler(4)]), els: Some(Body::single(inner)) },
            IfElseBothStmt => Stmt::If { cond, then: Body::single(filler(6)), els: Some(Body::single(inner)) },
            IfElseThenBothStmt => Stmt::If { cond, then: Body::single(inner), els: Some(Body::single(filler(13))) },
            WhileBlock => Stmt::While { cond, body: Body::block(vec![inner, filler(7)]) },
            WhileStmt => Stmt::While { cond, body: Body::single(inner) },
            ForRangeBlock => Stmt::For { ty: Ty::plain("int"), var: format!("i{}", uniq), iter: ForIter::Range(int(0), Some(int(2)), int(8)), body: Body::block(vec![inner]) },
            ForSetStmt => Stmt::For { ty: Ty::w("uint", 8), var: format!("i{}", uniq), iter: ForIter::Set(vec![int(1), int(2), int(3)]), body: Body::single(inner) },
            ForExprBlock => Stmt::For { ty: Ty::plain("bit"), var: format!("i{}", uniq), iter: ForIter::E(id("m")), body: Body::block(vec![filler(8), inner]) },
            Case => Stmt::Switch { control: id("a"), cases: vec![(vec![int(1), int(2)], vec![filler(9)]), (vec![int(3)], vec![inner])], default: Some(vec![filler(10)]) },
            Default => Stmt::Switch { control: id("a"), cases: vec![(vec![int(1)], vec![filler(11)])], default: Some(vec![inner, filler(12)]) },
            GateBody => Stmt::Gate { name: format!("w{}", uniq), params: Some(vec![format!("th{}", uniq)]), qubits: vec![format!("y{}", uniq)], body: vec![inner] },
            DefBody => Stmt::Def { name: format!("w{}", uniq), params: vec![(Ty::plain("int"), format!("z{}", uniq))], ret: None, body: vec![inner, Stmt::Return(None)] },
        }
    }
}

/// Insert the annotation line `ann` directly before `target` in the innermost *block* body that
/// holds it; false if `target` only occurs as a single-statement body (or not at all).
pub fn annotate_inner(st: &mut Stmt, target: &Stmt, ann: &str) -> bool {
    fn in_list(v: &mut Vec<Stmt>, target: &Stmt, ann: &str) -> bool {
        if let Some(i) = v.iter().position(|s| s == target) {
            v.insert(i, Stmt::Annotation(ann.to_string()));
            return true;
        }
        v.iter_mut().any(|s| annotate_inner(s, target, ann))
    }
    fn in_body(b: &mut Body, target: &Stmt, ann: &str) -> bool {
        if b.block {
            in_list(&mut b.stmts, target, ann)
        } else {
            b.stmts.iter_mut().any(|s| annotate_inner(s, target, ann))
        }
    }
    match st {
        Stmt::If { then, els, .. } => in_body(then, target, ann) || els.as_mut().map(|e| in_body(e, target, ann)).unwrap_or(false),
        Stmt::While { body, .. } | Stmt::For { body, .. } => in_body(body, target, ann),
        Stmt::Switch { cases, default, .. } => cases.iter_mut().any(|(_, b)| in_list(b, target, ann)) || default.as_mut().map(|d| in_list(d, target, ann)).unwrap_or(false),
        Stmt::Gate { body, .. } | Stmt::Def { body, .. } => in_list(body, target, ann),
        _ => false,
    }
}

/// Spine `ctxs` (outermost first) around leaf `leaf`.
pub fn spine(ctxs: &[Context], leaf: &Stmt) -> Stmt {
    let mut st = leaf.clone();
    for (i, c) in ctxs.iter().enumerate().rev() {
        st = c.wrap(st, (i + 1) as u32);
    }
    st
}

// ---------------------------------------------------------------------------------------
// Expression enumerations

/// All expressions `a op1 b op2 c` in both groupings: index in 0 .. 19*19*2.
pub fn two_op(i: u64) -> Expr {
    let g = i % 2;
    let o2 = BINOPS[((i / 2) % 19) as usize];
    let o1 = BINOPS[((i / 38) % 19) as usize];
    if g == 0 {
        bin(o2, bin(o1, id("a"), id("b")), id("c"))
    } else {
        bin(o1, id("a"), bin(o2, id("b"), id("c")))
    }
}
pub const N_TWO_OP: u64 = 19 * 19 * 2;

/// All trees with three binary operators over atoms a b c d: 5 shapes x 19^3.
pub fn three_op(i: u64) -> Expr {
    let shape = i % 5;
    let o3 = BINOPS[((i / 5) % 19) as usize];
    let o2 = BINOPS[((i / 95) % 19) as usize];
    let o1 = BINOPS[((i / 1805) % 19) as usize];
    let (a, b, c, d) = (id("a"), id("b"), id("c"), id("d"));
    match shape {
        0 => bin(o3, bin(o2, bin(o1, a, b), c), d),
        1 => bin(o3, bin(o1, a, bin(o2, b, c)), d),
        2 => bin(o2, bin(o1, a, b), bin(o3, c, d)),
        3 => bin(o1, a, bin(o3, bin(o2, b, c), d)),
        _ => bin(o1, a, bin(o2, b, bin(o3, c, d))),
    }
}
pub const N_THREE_OP: u64 = 5 * 19 * 19 * 19;

/// Unary x binary x postfix interactions.
pub fn unary_mix() -> Vec<Expr> {
    let mut v = Vec::new();
    let idx = |e: Expr| Expr::Index(Box::new(e), Index::List(vec![IndexItem::E(int(0))]));
    for u in UNOPS {
        v.push(un(u, id("a")));
        v.push(un(u, un(u, id("a"))));
        v.push(un(u, idx(id("a"))));
        v.push(un(u, Expr::Call(s("f1"), vec![id("a"), id("b")])));
        v.push(un(u, Expr::Cast(Ty::plain("int"), Box::new(id("a")))));
        for o in BINOPS {
            v.push(un(u, bin(o, id("a"), id("b"))));
            v.push(bin(o, un(u, id("a")), id("b")));
            v.push(bin(o, id("a"), un(u, id("b"))));
            v.push(bin(o, un(u, id("a")), un(u, id("b"))));
        }
        for u2 in UNOPS {
            v.push(un(u, un(u2, id("a"))));
        }
        // literal operands directly after the operator (sign folding must not change the tree)
        for lit in [int(2), flt("1.5")] {
            v.push(un(u, lit.clone()));
            v.push(un(u, un(u, lit.clone())));
            for o in BINOPS {
                v.push(bin(o, un(u, lit.clone()), id("b")));
                v.push(un(u, bin(o, lit.clone(), id("b"))));
                v.push(bin(o, id("a"), un(u, lit.clone())));
                v.push(bin(o, un(u, lit.clone()), un(u, lit.clone())));
            }
        }
    }
    for o in BINOPS {
        v.push(bin(o, idx(id("a")), Expr::Call(s("f1"), vec![id("b"), id("c")])));
        v.push(bin(o, Expr::Cast(Ty::w("float", 32), Box::new(id("a"))), flt("1.5")));
        v.push(idx(bin(o, id("a"), id("b"))));
        v.push(Expr::Call(s("f1"), vec![bin(o, id("a"), id("b")), bin(o, id("c"), int(1))]));
        v.push(Expr::Cast(Ty::w("int", 8), Box::new(bin(o, id("a"), id("b")))));
        v.push(bin(o, int(1), Expr::Timing(s("2"), false, "im")));
        v.push(bin(o, Expr::Bool(true), Expr::Bits(s("\"01\""))));
    }
    // index forms
    v.push(Expr::Index(Box::new(id("m")), Index::Set(vec![int(0), int(3), int(3)])));
    v.push(Expr::Index(Box::new(id("m")), Index::Set(vec![int(1), int(1)])));
    v.push(Expr::Index(Box::new(id("m")), Index::Set(vec![id("a"), id("a"), id("b")])));
    v.push(Expr::Index(Box::new(id("m")), Index::List(vec![IndexItem::E(int(1)), IndexItem::E(int(1))])));
    v.push(Expr::Call(s("f1"), vec![id("a"), id("a")]));
    v.push(Expr::Index(Box::new(id("m")), Index::List(vec![IndexItem::Range(int(0), None, int(2))])));
    v.push(Expr::Index(Box::new(id("m")), Index::List(vec![IndexItem::Range(int(0), Some(int(2)), int(3))])));
    v.push(Expr::Index(Box::new(id("m")), Index::Set(vec![int(0), int(2), int(3)])));
    v.push(Expr::Index(Box::new(id("m")), Index::List(vec![IndexItem::E(int(0)), IndexItem::E(bin(BinOp::Add, id("a"), int(1)))])));
    v.push(Expr::Index(Box::new(Expr::Index(Box::new(id("m")), Index::List(vec![IndexItem::E(int(0))]))), Index::List(vec![IndexItem::E(int(1))])));
    v.push(Expr::Index(Box::new(Expr::Call(s("f1"), vec![id("a"), id("b")])), Index::List(vec![IndexItem::E(int(1))])));
    // several index operators on a base that is not a plain name
    let idx1 = |e: Expr, i: u64| Expr::Index(Box::new(e), Index::List(vec![IndexItem::E(int(i))]));
    v.push(idx1(idx1(Expr::Call(s("f1"), vec![id("a"), id("b")]), 0), 1));
    v.push(idx1(idx1(Expr::Paren(Box::new(bin(BinOp::Add, id("a"), id("b")))), 0), 1));
    v.push(idx1(idx1(Expr::Cast(Ty::w("bit", 8), Box::new(id("a"))), 2), 3));
    v.push(Expr::Index(Box::new(id("m")), Index::List(vec![IndexItem::Range(bin(BinOp::Add, id("a"), int(1)), Some(un(UnOp::Neg, int(1))), bin(BinOp::Mul, id("b"), int(2)))])));
    v
}

/// Statement embedding an expression in one of the expression positions.
pub const N_POSITIONS: u64 = 12;
pub fn in_position(pos: u64, e: Expr) -> Stmt {
    match pos {
        0 => Stmt::Decl { konst: false, ty: Ty::plain("int"), name: s("xv"), init: Some(e) },
        1 => Stmt::ExprStmt(e),
        2 => Stmt::If { cond: e, then: Body::block(vec![]), els: None },
        3 => Stmt::While { cond: e, body: Body::single(Stmt::Break) },
        4 => Stmt::GateCall { mods: vec![], name: s("rx"), args: Some(vec![e]), operands: vec![opd("r")] },
        5 => Stmt::ExprStmt(Expr::Index(Box::new(id("m")), Index::List(vec![IndexItem::E(e)]))),
        6 => Stmt::For { ty: Ty::plain("int"), var: s("i"), iter: ForIter::Range(int(0), None, e), body: Body::block(vec![]) },
        7 => Stmt::Switch { control: id("a"), cases: vec![(vec![e], vec![])], default: None },
        8 => Stmt::Def { name: s("w"), params: vec![], ret: Some(Ty::plain("int")), body: vec![Stmt::Return(Some(e))] },
        9 => Stmt::Delay(e, vec![opd("r")]),
        10 => Stmt::GateCall { mods: vec![Modifier::Pow(e)], name: s("h"), args: None, operands: vec![opd("r")] },
        _ => Stmt::Assign { target: opd_i("m", 0), op: None, value: Expr::Call(s("f1"), vec![e, int(0)]) },
    }
}
