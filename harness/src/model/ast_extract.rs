//! Extraction of the canonical S-expression from the real AST, **only through the public typed
//! accessors** (so that a wrong accessor shows up as a wrong role, and private refactors of the
//! tree do not disturb the comparison).  Parentheses are transparent.

use oq3_syntax::ast::{self, AstNode, HasArgList, HasName, HasTextNode};
use oq3_syntax::{AstToken, BlockOrStmt};

type R = Result<String, String>;

fn missing(what: &str) -> String {
    format!("<missing {}>", what)
}

fn norm(s: &str) -> String {
    s.chars().filter(|c| !c.is_whitespace()).collect()
}

fn list(items: Vec<String>) -> String {
    items.join(" ")
}

pub fn scalar_type(t: &ast::ScalarType) -> R {
    use ast::ScalarTypeKind::*;
    let base = match t.kind() {
        Angle => "angle",
        Bit => "bit",
        Bool => "bool",
        Complex => "complex",
        Duration => "duration",
        Float => "float",
        Int => "int",
        Stretch => "stretch",
        UInt => "uint",
        Qubit => "qubit",
        None => return Err("scalar type of kind None".into()),
    };
    // complex[float[w]]: the designator sits on the inner float type
    let (base, desig) = if base == "complex" {
        match t.scalar_type() {
            Some(inner) => {
                if inner.kind() != Float {
                    return Err("complex over a non-float type".into());
                }
                match inner.designator() {
                    Some(d) => ("complex", Some(d)),
                    Option::None => ("complexf", Option::None),
                }
            }
            Option::None => ("complex", Option::None),
        }
    } else {
        (base, t.designator())
    };
    match desig {
        Some(d) => Ok(format!("(type {} {})", base, opt_expr(d.expr(), "designator expr")?)),
        Option::None => Ok(format!("(type {})", base)),
    }
}

fn opt_expr(e: Option<ast::Expr>, what: &str) -> R {
    match e {
        Some(e) => expr(&e),
        None => Err(missing(what)),
    }
}

fn literal(l: &ast::Literal) -> R {
    Ok(match l.kind() {
        ast::LiteralKind::IntNumber(n) => format!("(int {})", n.text()),
        ast::LiteralKind::FloatNumber(n) => format!("(float {})", n.text()),
        ast::LiteralKind::Bool(b) => format!("(bool {})", b),
        ast::LiteralKind::BitString(b) => format!("(bits {})", b.text()),
        ast::LiteralKind::String(s) => format!("(string {})", s.text()),
        ast::LiteralKind::Byte(_) | ast::LiteralKind::Char(_) => "(char)".into(),
    })
}

fn index_operator(i: &ast::IndexOperator) -> R {
    match i.index_kind() {
        Some(ast::IndexKind::SetExpression(s)) => {
            let el = s.expression_list().ok_or(missing("set expression list"))?;
            Ok(format!("[(set {})]", list(el.exprs().map(|e| expr(&e)).collect::<Result<Vec<_>, _>>()?)))
        }
        Some(ast::IndexKind::ExpressionList(el)) => Ok(format!("[{}]", list(el.exprs().map(|e| expr(&e)).collect::<Result<Vec<_>, _>>()?))),
        None => Err(missing("index kind")),
    }
}

fn indexed_identifier(ii: &ast::IndexedIdentifier) -> R {
    let id = ii.identifier().ok_or(missing("indexed identifier name"))?;
    let mut s = format!("(id {})", id.string());
    let mut n = 0;
    for op in ii.index_operators() {
        s = format!("(index {} {})", s, index_operator(&op)?);
        n += 1;
    }
    if n == 0 {
        return Err("indexed identifier without index operator".into());
    }
    Ok(s)
}

pub fn gate_operand(o: &ast::GateOperand) -> R {
    match o {
        ast::GateOperand::Identifier(i) => Ok(format!("(id {})", i.string())),
        ast::GateOperand::HardwareQubit(h) => Ok(format!("(hw {})", h.string())),
        ast::GateOperand::IndexedIdentifier(ii) => indexed_identifier(ii),
    }
}

/// Alternative accessors of the same constituents must agree with the ones the S-expression is
/// built from: (accessor, what it returned, what the role holds).
pub fn alternative_accessor_findings(root: &oq3_syntax::SyntaxNode) -> Vec<(String, String, String)> {
    let txt = |e: Option<ast::Expr>| e.map(|e| e.syntax().text().to_string()).unwrap_or_else(|| "<none>".into());
    let mut out = Vec::new();
    for n in root.descendants() {
        if let Some(r) = ast::RangeExpr::cast(n.clone()) {
            let (a, s, b) = r.start_step_stop();
            for (name, got, want) in [("RangeExpr::thestart", txt(r.thestart()), txt(a)), ("RangeExpr::step", txt(r.step()), txt(s)), ("RangeExpr::stop", txt(r.stop()), txt(b))] {
                if got != want {
                    out.push((name.to_string(), got, want));
                }
            }
        }
        if let Some(b) = ast::BinExpr::cast(n.clone()) {
            let (l, r) = b.sub_exprs();
            if txt(l.clone()) != txt(b.lhs()) || txt(r.clone()) != txt(b.rhs()) {
                out.push(("BinExpr::sub_exprs".into(), format!("({}, {})", txt(l), txt(r)), format!("({}, {})", txt(b.lhs()), txt(b.rhs()))));
            }
            let d = b.op_details().map(|(t, k)| format!("{} {:?}", t.text(), k));
            let w = match (b.op_token(), b.op_kind()) {
                (Some(t), Some(k)) => Some(format!("{} {:?}", t.text(), k)),
                _ => None,
            };
            if d != w {
                out.push(("BinExpr::op_details".into(), format!("{:?}", d), format!("{:?}", w)));
            }
        }
        if let Some(w) = ast::WhileStmt::cast(n.clone()) {
            // children: the condition, then the body; the inherent accessor loop_body() is
            // typed Option<Expr>, so it can be judged where the body is a block
            if let Some(body) = w.syntax().children().nth(1) {
                if ast::Expr::can_cast(body.kind()) {
                    let lb = w.loop_body().map(|e| e.syntax().text().to_string());
                    if lb.as_deref() != Some(body.text().to_string().as_str()) {
                        out.push(("WhileStmt::loop_body".into(), format!("{:?}", lb), format!("{:?}", body.text().to_string())));
                    }
                }
            }
        }
        if let Some(i) = ast::IfStmt::cast(n.clone()) {
            let t1 = i.then_branch_block().map(|b| b.syntax().text().to_string()).or(i.then_branch_stmt().map(|s| s.syntax().text().to_string()));
            let node1 = i.syntax().children().nth(1).map(|c| c.text().to_string());
            if t1 != node1 {
                out.push(("IfStmt::then_branch_*".into(), format!("{:?}", t1), format!("{:?}", node1)));
            }
            let t2 = i.else_branch_block().map(|b| b.syntax().text().to_string()).or(i.else_branch_stmt().map(|s| s.syntax().text().to_string()));
            let node2 = i.syntax().children().nth(2).map(|c| c.text().to_string());
            if t2 != node2 {
                out.push(("IfStmt::else_branch_*".into(), format!("{:?}", t2), format!("{:?}", node2)));
            }
        }
    }
    out
}

fn range(r: &ast::RangeExpr) -> R {
    let (a, s, b) = r.start_step_stop();
    let a = opt_expr(a, "range start")?;
    let b = opt_expr(b, "range stop")?;
    Ok(match s {
        Some(s) => format!("(range {} {} {})", a, expr(&s)?, b),
        None => format!("(range {} _ {})", a, b),
    })
}

fn binop_text(op: ast::BinaryOp) -> String {
    format!("{}", op)
}

pub fn expr(e: &ast::Expr) -> R {
    match e {
        ast::Expr::ParenExpr(p) => opt_expr(p.expr(), "parenthesised expr"),
        ast::Expr::Literal(l) => literal(l),
        ast::Expr::TimingLiteral(t) => {
            let l = t.literal().ok_or(missing("timing literal number"))?;
            let u = t.identifier().ok_or(missing("timing literal unit"))?;
            if t.time_unit().is_none() {
                return Err(format!("time unit {} not recognised", u.string()));
            }
            Ok(format!("(timing {} {})", literal(&l)?, u.string()))
        }
        ast::Expr::Identifier(i) => Ok(format!("(id {})", i.string())),
        ast::Expr::HardwareQubit(h) => Ok(format!("(hw {})", h.string())),
        ast::Expr::BinExpr(b) => {
            let op = b.op_kind().ok_or(missing("binary operator"))?;
            let tok = b.op_token().map(|t| t.text().to_string()).unwrap_or_default();
            if tok != binop_text(op) {
                return Err(format!("operator token `{}` reported as `{}`", tok, binop_text(op)));
            }
            Ok(format!("(bin {} {} {})", tok, opt_expr(b.lhs(), "lhs")?, opt_expr(b.rhs(), "rhs")?))
        }
        ast::Expr::PrefixExpr(p) => {
            let op = match p.op_kind() {
                Some(ast::UnaryOp::Neg) => "-",
                Some(ast::UnaryOp::LogicNot) => "!",
                Some(ast::UnaryOp::Not) => "~",
                None => return Err(missing("unary operator")),
            };
            let tok = p.op_token().map(|t| t.text().to_string()).unwrap_or_default();
            if tok != op {
                return Err(format!("unary operator token `{}` reported as `{}`", tok, op));
            }
            Ok(format!("(un {} {})", op, opt_expr(p.expr(), "unary operand")?))
        }
        ast::Expr::CastExpression(c) => {
            let t = c.scalar_type().ok_or(missing("cast type"))?;
            Ok(format!("(cast {} {})", scalar_type(&t)?, opt_expr(c.expr(), "cast operand")?))
        }
        ast::Expr::CallExpr(c) => {
            let name = c.identifier().ok_or(missing("callee"))?;
            let args = c.arg_list().ok_or(missing("argument list"))?;
            let el = args.expression_list().ok_or(missing("argument expression list"))?;
            Ok(format!("(call {} ({}))", name.string(), list(el.exprs().map(|e| expr(&e)).collect::<Result<Vec<_>, _>>()?)))
        }
        ast::Expr::IndexExpr(i) => {
            let base = opt_expr(i.expr(), "index base")?;
            let op = i.index_operator().ok_or(missing("index operator"))?;
            Ok(format!("(index {} {})", base, index_operator(&op)?))
        }
        ast::Expr::IndexedIdentifier(ii) => indexed_identifier(ii),
        ast::Expr::MeasureExpression(m) => {
            let o = m.gate_operand().ok_or(missing("measure operand"))?;
            Ok(format!("(measure {})", gate_operand(&o)?))
        }
        ast::Expr::RangeExpr(r) => range(r),
        ast::Expr::ReturnExpr(r) => Ok(match r.expr() {
            Some(e) => format!("(return {})", expr(&e)?),
            None => "(return)".into(),
        }),
        ast::Expr::GateCallExpr(g) => gate_call(g, "()"),
        ast::Expr::ModifiedGateCallExpr(m) => modified(m),
        ast::Expr::GPhaseCallExpr(g) => Ok(format!("(gphase () {})", gphase_arg(g)?)),
        ast::Expr::BlockExpr(b) => Ok(format!("(block {})", block(b)?)),
        other => Ok(format!("(other {})", norm(&other.syntax().text().to_string()))),
    }
}

fn gphase_arg(g: &ast::GPhaseCallExpr) -> R {
    // `gphase(x)`: the argument is parsed as a parenthesised expression
    opt_expr(g.arg(), "gphase argument")
}

fn gate_call(g: &ast::GateCallExpr, mods: &str) -> R {
    let name = g.identifier().ok_or(missing("gate name"))?;
    let args = match g.arg_list() {
        Some(a) => {
            let el = a.expression_list().ok_or(missing("gate argument list"))?;
            format!("({})", list(el.exprs().map(|e| expr(&e)).collect::<Result<Vec<_>, _>>()?))
        }
        None => "_".into(),
    };
    let ql = g.qubit_list().ok_or(missing("qubit list"))?;
    let ops = ql.gate_operands().map(|o| gate_operand(&o)).collect::<Result<Vec<_>, _>>()?;
    Ok(format!("(gatecall {} {} {} ({}))", mods, name.string(), args, list(ops)))
}

fn modifiers(m: &ast::ModifiedGateCallExpr) -> R {
    let mut v = Vec::new();
    for md in m.modifiers() {
        v.push(match md {
            ast::Modifier::InvModifier(_) => "inv".to_string(),
            ast::Modifier::PowModifier(p) => {
                let pe = p.paren_expr().ok_or(missing("pow argument"))?;
                format!("(pow {})", opt_expr(pe.expr(), "pow argument expr")?)
            }
            ast::Modifier::CtrlModifier(c) => match c.paren_expr() {
                Some(pe) => format!("(ctrl {})", opt_expr(pe.expr(), "ctrl argument expr")?),
                None => "ctrl".into(),
            },
            ast::Modifier::NegCtrlModifier(c) => match c.paren_expr() {
                Some(pe) => format!("(negctrl {})", opt_expr(pe.expr(), "negctrl argument expr")?),
                None => "negctrl".into(),
            },
        });
    }
    Ok(format!("({})", list(v)))
}

fn modified(m: &ast::ModifiedGateCallExpr) -> R {
    let mods = modifiers(m)?;
    if let Some(g) = m.gate_call_expr() {
        return gate_call(&g, &mods);
    }
    if let Some(g) = m.g_phase_call_expr() {
        return Ok(format!("(gphase {} {})", mods, gphase_arg(&g)?));
    }
    Err(missing("modified call target"))
}

pub fn block(b: &ast::BlockExpr) -> R {
    Ok(list(b.statements().map(|s| stmt(&s)).collect::<Result<Vec<_>, _>>()?))
}

fn block_or_stmt(b: BlockOrStmt) -> R {
    match b {
        BlockOrStmt::BlockExpr(b) => block(&b),
        BlockOrStmt::Stmt(s) => stmt(&s),
    }
}

pub fn stmt(s: &ast::Stmt) -> R {
    match s {
        ast::Stmt::ClassicalDeclarationStatement(d) => {
            let t = d.scalar_type().ok_or(missing("declared type"))?;
            let name = d.name().ok_or(missing("declared name"))?;
            let init = match d.expr() {
                Some(e) => format!(" {}", expr(&e)?),
                None => String::new(),
            };
            Ok(format!("(decl{} {} {}{})", if d.const_token().is_some() { " const" } else { "" }, scalar_type(&t)?, name.string(), init))
        }
        ast::Stmt::IODeclarationStatement(d) => {
            let t = d.scalar_type().ok_or(missing("io type"))?;
            let name = d.name().ok_or(missing("io name"))?;
            let dir = if d.input_token().is_some() {
                "input"
            } else if d.output_token().is_some() {
                "output"
            } else {
                return Err(missing("input/output keyword"));
            };
            Ok(format!("(io {} {} {})", dir, scalar_type(&t)?, name.string()))
        }
        ast::Stmt::QuantumDeclarationStatement(q) => {
            let qt = q.qubit_type().ok_or(missing("qubit type"))?;
            let name = match q.name() {
                Some(n) => n.string(),
                None => q.hardware_qubit().map(|h| h.string()).ok_or(missing("qubit name"))?,
            };
            Ok(match qt.designator() {
                Some(d) => format!("(qubit {} {})", opt_expr(d.expr(), "qubit designator")?, name),
                None => format!("(qubit _ {})", name),
            })
        }
        ast::Stmt::AliasDeclarationStatement(a) => {
            let name = a.name().ok_or(missing("alias name"))?;
            Ok(format!("(alias {} {})", name.string(), opt_expr(a.expr(), "alias value")?))
        }
        ast::Stmt::AssignmentStmt(a) => {
            // as a user of the accessors reads it: `identifier()` is the assigned name when the
            // target is a plain identifier, otherwise `indexed_identifier()` is the target
            let target = match (a.identifier(), a.indexed_identifier()) {
                (Some(i), _) => format!("(id {})", i.string()),
                (None, Some(ii)) => indexed_identifier(&ii)?,
                (None, None) => return Err(missing("assignment target")),
            };
            Ok(format!("(assign = {} {})", target, opt_expr(a.rhs(), "assignment value")?))
        }
        ast::Stmt::ExprStmt(e) => {
            let inner = e.expr().ok_or(missing("expression of expression statement"))?;
            match &inner {
                ast::Expr::GateCallExpr(_) | ast::Expr::ModifiedGateCallExpr(_) | ast::Expr::GPhaseCallExpr(_) | ast::Expr::ReturnExpr(_) => expr(&inner),
                ast::Expr::BinExpr(b) if matches!(b.op_kind(), Some(ast::BinaryOp::Assignment { op: Some(_) })) => {
                    let tok = b.op_token().map(|t| t.text().to_string()).unwrap_or_default();
                    Ok(format!("(assign {} {} {})", tok, opt_expr(b.lhs(), "compound assignment target")?, opt_expr(b.rhs(), "compound assignment value")?))
                }
                _ => Ok(format!("(expr {})", expr(&inner)?)),
            }
        }
        ast::Stmt::Reset(r) => Ok(format!("(reset {})", gate_operand(&r.gate_operand().ok_or(missing("reset operand"))?)?)),
        ast::Stmt::Barrier(b) => Ok(match b.qubit_list() {
            Some(ql) => format!("(barrier {})", list(ql.gate_operands().map(|o| gate_operand(&o)).collect::<Result<Vec<_>, _>>()?)),
            None => "(barrier )".into(),
        }),
        ast::Stmt::DelayStmt(d) => {
            let des = d.designator().ok_or(missing("delay designator"))?;
            let ops = match d.qubit_list() {
                Some(ql) => list(ql.gate_operands().map(|o| gate_operand(&o)).collect::<Result<Vec<_>, _>>()?),
                None => String::new(),
            };
            Ok(format!("(delay {} ({}))", opt_expr(des.expr(), "delay duration")?, ops))
        }
        ast::Stmt::IfStmt(i) => {
            let c = opt_expr(i.condition(), "if condition")?;
            let then = block_or_stmt(i.true_body_block_or_stmt())?;
            Ok(match i.false_body_block_or_stmt() {
                Some(e) => format!("(if {} (then {}) (else {}))", c, then, block_or_stmt(e)?),
                None => format!("(if {} (then {}))", c, then),
            })
        }
        ast::Stmt::WhileStmt(w) => Ok(format!("(while {} (body {}))", opt_expr(w.condition(), "while condition")?, block_or_stmt(w.block_or_stmt())?)),
        ast::Stmt::ForStmt(f) => {
            let t = f.scalar_type().ok_or(missing("loop variable type"))?;
            let v = f.loop_var().ok_or(missing("loop variable"))?;
            let it = f.for_iterable().ok_or(missing("for iterable"))?;
            let iter = if let Some(s) = it.set_expression() {
                let el = s.expression_list().ok_or(missing("set expression list"))?;
                format!("(set {})", list(el.exprs().map(|e| expr(&e)).collect::<Result<Vec<_>, _>>()?))
            } else if let Some(r) = it.range_expr() {
                range(&r)?
            } else if let Some(e) = it.for_iterable_expr() {
                expr(&e)?
            } else {
                return Err(missing("for iterable content"));
            };
            Ok(format!("(for {} {} {} (body {}))", scalar_type(&t)?, v.string(), iter, block_or_stmt(f.block_or_stmt())?))
        }
        ast::Stmt::SwitchCaseStmt(s) => {
            let c = opt_expr(s.control(), "switch control")?;
            let mut cases = Vec::new();
            for ce in s.case_exprs() {
                let el = ce.expression_list().ok_or(missing("case values"))?;
                let b = ce.block_expr().ok_or(missing("case body"))?;
                cases.push(format!("(case ({}) ({}))", list(el.exprs().map(|e| expr(&e)).collect::<Result<Vec<_>, _>>()?), block(&b)?));
            }
            let d = match s.default_block() {
                Some(b) if s.default_token().is_some() => format!(" (default {})", block(&b)?),
                Some(_) => return Err("default block without default keyword".into()),
                None => String::new(),
            };
            Ok(format!("(switch {} {}{})", c, list(cases), d))
        }
        ast::Stmt::BreakStmt(_) => Ok("break".into()),
        ast::Stmt::ContinueStmt(_) => Ok("continue".into()),
        ast::Stmt::EndStmt(_) => Ok("end".into()),
        ast::Stmt::Gate(g) => {
            let name = g.name().ok_or(missing("gate name"))?;
            let params = match g.angle_params() {
                Some(p) => format!("({})", list(p.params().map(|x| x.string()).collect())),
                None => "_".into(),
            };
            let qubits = g.qubit_params().ok_or(missing("gate qubits"))?;
            let body = g.body().ok_or(missing("gate body"))?;
            Ok(format!("(gate {} {} ({}) (body {}))", name.string(), params, list(qubits.params().map(|x| x.string()).collect()), block(&body)?))
        }
        ast::Stmt::Def(d) => {
            let name = d.name().ok_or(missing("def name"))?;
            let pl = d.typed_param_list().ok_or(missing("def parameter list"))?;
            let mut ps = Vec::new();
            for p in pl.typed_params() {
                let t = match p.param_type() {
                    Some(ast::ParamType::ScalarType(t)) => scalar_type(&t)?,
                    Some(ast::ParamType::ArrayRefType(_)) => "(type arrayref)".into(),
                    None => return Err(missing("parameter type")),
                };
                ps.push(format!("({} {})", t, p.name().ok_or(missing("parameter name"))?.string()));
            }
            let ret = match d.return_signature() {
                Some(r) => scalar_type(&r.scalar_type().ok_or(missing("return type"))?)?,
                None => "_".into(),
            };
            let body = d.body().ok_or(missing("def body"))?;
            Ok(format!("(def {} ({}) {} (body {}))", name.string(), list(ps), ret, block(&body)?))
        }
        ast::Stmt::Include(i) => {
            let f = i.file().ok_or(missing("include file"))?;
            Ok(format!("(include {})", f.token().text()))
        }
        ast::Stmt::PragmaStatement(p) => {
            let full = p.syntax().text().to_string();
            let body = p.pragma_text();
            if !full.ends_with(&body) {
                return Err(format!("pragma_text `{}` is not the tail of `{}`", body, full));
            }
            Ok(format!("(pragma {:?})", full))
        }
        ast::Stmt::AnnotationStatement(a) => Ok(format!("(annotation {:?})", a.annotation_text())),
        other => Ok(format!("(other-stmt {:?} {})", other.syntax().kind(), norm(&other.syntax().text().to_string()))),
    }
}

pub fn program(sf: &ast::SourceFile) -> R {
    Ok(list(sf.statements().map(|s| stmt(&s)).collect::<Result<Vec<_>, _>>()?))
}
