//! G-PROG: a small model of OpenQASM 3 programs (DESIGN.md 4.4) with
//!  * a printer producing a token list (so that layouts can be varied gap by gap),
//!  * the OpenQASM 3 precedence table as data (R-prec) deciding where parentheses are needed,
//!  * a canonical S-expression of each construct (R-skel), which the extractors of the real
//!    AST and of the semantic graph must reproduce.

#[derive(Clone, Copy, Debug, PartialEq, Eq, Hash)]
pub enum BinOp {
    OrOr,
    AndAnd,
    BitOr,
    BitXor,
    BitAnd,
    Eq,
    Ne,
    Lt,
    Le,
    Gt,
    Ge,
    Shl,
    Shr,
    Add,
    Sub,
    Mul,
    Div,
    Rem,
    Pow,
}

pub const BINOPS: [BinOp; 19] = [
    BinOp::OrOr,
    BinOp::AndAnd,
    BinOp::BitOr,
    BinOp::BitXor,
    BinOp::BitAnd,
    BinOp::Eq,
    BinOp::Ne,
    BinOp::Lt,
    BinOp::Le,
    BinOp::Gt,
    BinOp::Ge,
    BinOp::Shl,
    BinOp::Shr,
    BinOp::Add,
    BinOp::Sub,
    BinOp::Mul,
    BinOp::Div,
    BinOp::Rem,
    BinOp::Pow,
];

impl BinOp {
    pub fn text(self) -> &'static str {
        use BinOp::*;
        match self {
            OrOr => "||",
            AndAnd => "&&",
            BitOr => "|",
            BitXor => "^",
            BitAnd => "&",
            Eq => "==",
            Ne => "!=",
            Lt => "<",
            Le => "<=",
            Gt => ">",
            Ge => ">=",
            Shl => "<<",
            Shr => ">>",
            Add => "+",
            Sub => "-",
            Mul => "*",
            Div => "/",
            Rem => "%",
            Pow => "**",
        }
    }
    /// R-prec: the OpenQASM 3 table. Higher binds tighter.
    pub fn prec(self) -> u8 {
        use BinOp::*;
        match self {
            OrOr => 2,
            AndAnd => 3,
            BitOr => 4,
            BitXor => 5,
            BitAnd => 6,
            Eq | Ne => 7,
            Lt | Le | Gt | Ge => 8,
            Shl | Shr => 9,
            Add | Sub => 10,
            Mul | Div | Rem => 11,
            Pow => 13,
        }
    }
    pub fn right_assoc(self) -> bool {
        self == BinOp::Pow
    }
}

pub const UNARY_PREC: u8 = 12;

#[derive(Clone, Copy, Debug, PartialEq, Eq, Hash)]
pub enum UnOp {
    Neg,
    Not,
    BitNot,
}

pub const UNOPS: [UnOp; 3] = [UnOp::Neg, UnOp::Not, UnOp::BitNot];

impl UnOp {
    pub fn text(self) -> &'static str {
        match self {
            UnOp::Neg => "-",
            UnOp::Not => "!",
            UnOp::BitNot => "~",
        }
    }
}

/// A scalar type as written: base name and optional designator expression.
#[derive(Clone, Debug, PartialEq)]
pub struct Ty {
    pub base: &'static str, // bit int uint float angle bool duration stretch complex
    pub width: Option<Box<Expr>>,
}

impl Ty {
    pub fn plain(base: &'static str) -> Ty {
        Ty { base, width: None }
    }
    pub fn w(base: &'static str, n: u32) -> Ty {
        Ty { base, width: Some(Box::new(Expr::Int(n.to_string()))) }
    }
    pub fn sexp(&self) -> String {
        match &self.width {
            None => format!("(type {})", self.base),
            Some(w) => format!("(type {} {})", self.base, w.sexp()),
        }
    }
}

#[derive(Clone, Debug, PartialEq)]
pub enum IndexItem {
    E(Expr),
    Range(Expr, Option<Expr>, Expr), // start, step, stop
}

#[derive(Clone, Debug, PartialEq)]
pub enum Index {
    List(Vec<IndexItem>),
    Set(Vec<Expr>),
}

#[derive(Clone, Debug, PartialEq)]
pub enum Operand {
    Id(String),
    Hw(String),
    Indexed(String, Vec<Index>),
}

#[derive(Clone, Debug, PartialEq)]
pub enum Expr {
    Int(String),
    Float(String),
    Bool(bool),
    Bits(String),             // with quotes
    Timing(String, bool, &'static str), // number text, is_float, unit (incl. im)
    Id(String),
    Hw(String),
    Bin(BinOp, Box<Expr>, Box<Expr>),
    Un(UnOp, Box<Expr>),
    Cast(Ty, Box<Expr>),
    Call(String, Vec<Expr>),
    Index(Box<Expr>, Index),
    Measure(Operand),
    /// Explicit, redundant parentheses requested by the model (transparent in the S-expression).
    Paren(Box<Expr>),
}

pub fn id(s: &str) -> Expr {
    Expr::Id(s.to_string())
}
pub fn int(n: u64) -> Expr {
    Expr::Int(n.to_string())
}
pub fn bin(op: BinOp, l: Expr, r: Expr) -> Expr {
    Expr::Bin(op, Box::new(l), Box::new(r))
}
pub fn un(op: UnOp, e: Expr) -> Expr {
    Expr::Un(op, Box::new(e))
}

#[derive(Clone, Debug, PartialEq)]
pub enum Modifier {
    Inv,
    Pow(Expr),
    Ctrl(Option<Expr>),
    NegCtrl(Option<Expr>),
}

#[derive(Clone, Debug, PartialEq)]
pub enum ForIter {
    Range(Expr, Option<Expr>, Expr),
    Set(Vec<Expr>),
    E(Expr),
}

#[derive(Clone, Debug, PartialEq)]
pub struct Body {
    pub block: bool,
    pub stmts: Vec<Stmt>,
}

impl Body {
    pub fn block(stmts: Vec<Stmt>) -> Body {
        Body { block: true, stmts }
    }
    pub fn single(s: Stmt) -> Body {
        Body { block: false, stmts: vec![s] }
    }
}

#[derive(Clone, Debug, PartialEq)]
pub enum Stmt {
    Decl { konst: bool, ty: Ty, name: String, init: Option<Expr> },
    Io { input: bool, ty: Ty, name: String },
    Qubit { size: Option<Expr>, name: String },
    Alias { name: String, value: Expr },
    Assign { target: Operand, op: Option<BinOp>, value: Expr },
    ExprStmt(Expr),
    GateCall { mods: Vec<Modifier>, name: String, args: Option<Vec<Expr>>, operands: Vec<Operand> },
    GPhase { mods: Vec<Modifier>, arg: Expr, operands: Vec<Operand> },
    Reset(Operand),
    Barrier(Vec<Operand>),
    Delay(Expr, Vec<Operand>),
    If { cond: Expr, then: Body, els: Option<Body> },
    While { cond: Expr, body: Body },
    For { ty: Ty, var: String, iter: ForIter, body: Body },
    Switch { control: Expr, cases: Vec<(Vec<Expr>, Vec<Stmt>)>, default: Option<Vec<Stmt>> },
    Break,
    Continue,
    End,
    Gate { name: String, params: Option<Vec<String>>, qubits: Vec<String>, body: Vec<Stmt> },
    Def { name: String, params: Vec<(Ty, String)>, ret: Option<Ty>, body: Vec<Stmt> },
    Return(Option<Expr>),
    Include(String),
    Pragma(String),     // whole line, starting with `pragma` or `#pragma`
    Annotation(String), // whole line, starting with `@`
}

// ---------------------------------------------------------------------------------------
// Canonical S-expressions (R-skel)

fn list(items: impl IntoIterator<Item = String>) -> String {
    items.into_iter().collect::<Vec<_>>().join(" ")
}

impl IndexItem {
    pub fn sexp(&self) -> String {
        match self {
            IndexItem::E(e) => e.sexp(),
            IndexItem::Range(a, s, b) => range_sexp(a, s.as_ref(), b),
        }
    }
}

pub fn range_sexp(a: &Expr, s: Option<&Expr>, b: &Expr) -> String {
    match s {
        Some(s) => format!("(range {} {} {})", a.sexp(), s.sexp(), b.sexp()),
        None => format!("(range {} _ {})", a.sexp(), b.sexp()),
    }
}

impl Index {
    pub fn sexp(&self) -> String {
        match self {
            Index::List(items) => format!("[{}]", list(items.iter().map(|i| i.sexp()))),
            Index::Set(es) => format!("[(set {})]", list(es.iter().map(|e| e.sexp()))),
        }
    }
}

impl Operand {
    pub fn sexp(&self) -> String {
        match self {
            Operand::Id(n) => format!("(id {})", n),
            Operand::Hw(n) => format!("(hw {})", n),
            Operand::Indexed(n, idx) => {
                let mut s = format!("(id {})", n);
                for i in idx {
                    s = format!("(index {} {})", s, i.sexp());
                }
                s
            }
        }
    }
}

impl Expr {
    pub fn sexp(&self) -> String {
        match self {
            Expr::Int(t) => format!("(int {})", t),
            Expr::Float(t) => format!("(float {})", t),
            Expr::Bool(b) => format!("(bool {})", b),
            Expr::Bits(t) => format!("(bits {})", t),
            Expr::Timing(n, f, u) => format!("(timing ({} {}) {})", if *f { "float" } else { "int" }, n, u),
            Expr::Id(n) => format!("(id {})", n),
            Expr::Hw(n) => format!("(hw {})", n),
            Expr::Bin(op, l, r) => format!("(bin {} {} {})", op.text(), l.sexp(), r.sexp()),
            Expr::Un(op, e) => format!("(un {} {})", op.text(), e.sexp()),
            Expr::Cast(t, e) => format!("(cast {} {})", t.sexp(), e.sexp()),
            Expr::Call(f, args) => format!("(call {} ({}))", f, list(args.iter().map(|a| a.sexp()))),
            Expr::Index(b, i) => format!("(index {} {})", b.sexp(), i.sexp()),
            Expr::Measure(o) => format!("(measure {})", o.sexp()),
            Expr::Paren(e) => e.sexp(),
        }
    }
}

impl Modifier {
    pub fn sexp(&self) -> String {
        match self {
            Modifier::Inv => "inv".into(),
            Modifier::Pow(e) => format!("(pow {})", e.sexp()),
            Modifier::Ctrl(None) => "ctrl".into(),
            Modifier::Ctrl(Some(e)) => format!("(ctrl {})", e.sexp()),
            Modifier::NegCtrl(None) => "negctrl".into(),
            Modifier::NegCtrl(Some(e)) => format!("(negctrl {})", e.sexp()),
        }
    }
}

pub fn stmts_sexp(stmts: &[Stmt]) -> String {
    list(stmts.iter().map(|s| s.sexp()))
}

impl Stmt {
    pub fn sexp(&self) -> String {
        match self {
            Stmt::Decl { konst, ty, name, init } => format!(
                "(decl{} {} {}{})",
                if *konst { " const" } else { "" },
                ty.sexp(),
                name,
                init.as_ref().map(|e| format!(" {}", e.sexp())).unwrap_or_default()
            ),
            Stmt::Io { input, ty, name } => format!("(io {} {} {})", if *input { "input" } else { "output" }, ty.sexp(), name),
            Stmt::Qubit { size, name } => match size {
                Some(e) => format!("(qubit {} {})", e.sexp(), name),
                None => format!("(qubit _ {})", name),
            },
            Stmt::Alias { name, value } => format!("(alias {} {})", name, value.sexp()),
            Stmt::Assign { target, op, value } => format!(
                "(assign {}= {} {})",
                op.map(|o| o.text()).unwrap_or(""),
                target.sexp(),
                value.sexp()
            ),
            Stmt::ExprStmt(e) => format!("(expr {})", e.sexp()),
            Stmt::GateCall { mods, name, args, operands } => format!(
                "(gatecall ({}) {} {} ({}))",
                list(mods.iter().map(|m| m.sexp())),
                name,
                match args {
                    Some(a) => format!("({})", list(a.iter().map(|e| e.sexp()))),
                    None => "_".into(),
                },
                list(operands.iter().map(|o| o.sexp()))
            ),
            Stmt::GPhase { mods, arg, operands } => format!(
                "(gphase ({}) {}{})",
                list(mods.iter().map(|m| m.sexp())),
                arg.sexp(),
                if operands.is_empty() { String::new() } else { format!(" ({})", list(operands.iter().map(|o| o.sexp()))) }
            ),
            Stmt::Reset(o) => format!("(reset {})", o.sexp()),
            Stmt::Barrier(os) => format!("(barrier {})", list(os.iter().map(|o| o.sexp()))),
            Stmt::Delay(e, os) => format!("(delay {} ({}))", e.sexp(), list(os.iter().map(|o| o.sexp()))),
            Stmt::If { cond, then, els } => format!(
                "(if {} (then {}){})",
                cond.sexp(),
                stmts_sexp(&then.stmts),
                els.as_ref().map(|b| format!(" (else {})", stmts_sexp(&b.stmts))).unwrap_or_default()
            ),
            Stmt::While { cond, body } => format!("(while {} (body {}))", cond.sexp(), stmts_sexp(&body.stmts)),
            Stmt::For { ty, var, iter, body } => format!(
                "(for {} {} {} (body {}))",
                ty.sexp(),
                var,
                match iter {
                    ForIter::Range(a, s, b) => range_sexp(a, s.as_ref(), b),
                    ForIter::Set(es) => format!("(set {})", list(es.iter().map(|e| e.sexp()))),
                    ForIter::E(e) => e.sexp(),
                },
                stmts_sexp(&body.stmts)
            ),
            Stmt::Switch { control, cases, default } => format!(
                "(switch {} {}{})",
                control.sexp(),
                list(cases.iter().map(|(vals, body)| format!("(case ({}) ({}))", list(vals.iter().map(|v| v.sexp())), stmts_sexp(body)))),
                default.as_ref().map(|d| format!(" (default {})", stmts_sexp(d))).unwrap_or_default()
            ),
            Stmt::Break => "break".into(),
            Stmt::Continue => "continue".into(),
            Stmt::End => "end".into(),
            Stmt::Gate { name, params, qubits, body } => format!(
                "(gate {} {} ({}) (body {}))",
                name,
                match params {
                    Some(p) => format!("({})", p.join(" ")),
                    None => "_".into(),
                },
                qubits.join(" "),
                stmts_sexp(body)
            ),
            Stmt::Def { name, params, ret, body } => format!(
                "(def {} ({}) {} (body {}))",
                name,
                list(params.iter().map(|(t, n)| format!("({} {})", t.sexp(), n))),
                ret.as_ref().map(|t| t.sexp()).unwrap_or("_".into()),
                stmts_sexp(body)
            ),
            Stmt::Return(e) => match e {
                Some(e) => format!("(return {})", e.sexp()),
                None => "(return)".into(),
            },
            Stmt::Include(f) => format!("(include {})", f),
            Stmt::Pragma(t) => format!("(pragma {:?})", t),
            Stmt::Annotation(t) => format!("(annotation {:?})", t),
        }
    }
}

// ---------------------------------------------------------------------------------------
// Printer

#[derive(Clone, Debug, PartialEq)]
pub struct Tok {
    pub text: String,
    /// runs to the end of the line (pragma, annotation): a newline must follow
    pub line: bool,
    /// the gap *before* this token may only be empty or blanks (unit after a number)
    pub unit: bool,
    /// index of the top-level statement this token belongs to
    pub stmt: usize,
}

#[derive(Clone, Copy, Debug, PartialEq, Eq)]
pub enum Parens {
    /// exactly those the OpenQASM 3 table requires
    Minimal,
    /// around every binary and unary operand
    Full,
    /// double parentheses around every binary expression
    Redundant,
}

pub struct Printer {
    pub toks: Vec<Tok>,
    pub parens: Parens,
    cur_stmt: usize,
    depth: usize,
}

impl Printer {
    pub fn new(parens: Parens) -> Printer {
        Printer { toks: Vec::new(), parens, cur_stmt: 0, depth: 0 }
    }
    fn t(&mut self, s: &str) {
        self.toks.push(Tok { text: s.to_string(), line: false, unit: false, stmt: self.cur_stmt });
    }
    fn line(&mut self, s: &str) {
        self.toks.push(Tok { text: s.to_string(), line: true, unit: false, stmt: self.cur_stmt });
    }

    pub fn ty(&mut self, t: &Ty) {
        if t.base == "complex" {
            self.t("complex");
            if let Some(w) = &t.width {
                self.t("[");
                self.t("float");
                self.t("[");
                self.expr(w, 0, false);
                self.t("]");
                self.t("]");
            }
            return;
        }
        if t.base == "complexf" {
            // complex[float] without a width
            self.t("complex");
            self.t("[");
            self.t("float");
            self.t("]");
            return;
        }
        self.t(t.base);
        if let Some(w) = &t.width {
            self.t("[");
            self.expr(w, 0, false);
            self.t("]");
        }
    }

    fn index(&mut self, i: &Index) {
        self.t("[");
        match i {
            Index::List(items) => {
                for (k, it) in items.iter().enumerate() {
                    if k > 0 {
                        self.t(",");
                    }
                    match it {
                        IndexItem::E(e) => self.expr(e, 0, false),
                        IndexItem::Range(a, s, b) => {
                            self.expr(a, 0, false);
                            self.t(":");
                            if let Some(s) = s {
                                self.expr(s, 0, false);
                                self.t(":");
                            }
                            self.expr(b, 0, false);
                        }
                    }
                }
            }
            Index::Set(es) => {
                self.t("{");
                for (k, e) in es.iter().enumerate() {
                    if k > 0 {
                        self.t(",");
                    }
                    self.expr(e, 0, false);
                }
                self.t("}");
            }
        }
        self.t("]");
    }

    pub fn operand(&mut self, o: &Operand) {
        match o {
            Operand::Id(n) | Operand::Hw(n) => self.t(n),
            Operand::Indexed(n, idx) => {
                self.t(n);
                for i in idx {
                    self.index(i);
                }
            }
        }
    }

    fn operands(&mut self, os: &[Operand]) {
        for (k, o) in os.iter().enumerate() {
            if k > 0 {
                self.t(",");
            }
            self.operand(o);
        }
    }

    /// Does `e` need parentheses as an operand of a construct with precedence `ctx`?
    /// `strict`: an operand of equal precedence needs them too (the non-associative side).
    fn needs_parens(e: &Expr, ctx: u8, strict: bool, left_of_pow: bool) -> bool {
        match e {
            Expr::Bin(op, ..) => op.prec() < ctx || (op.prec() == ctx && strict),
            // a unary operand never needs parentheses, except as the left operand of `**`
            Expr::Un(..) => left_of_pow,
            Expr::Measure(_) => ctx > 0,
            _ => false,
        }
    }

    /// Print `e` as an operand in a context of precedence `ctx`.
    pub fn expr(&mut self, e: &Expr, ctx: u8, strict: bool) {
        self.expr_lp(e, ctx, strict, false)
    }

    fn expr_lp(&mut self, e: &Expr, ctx: u8, strict: bool, left_of_pow: bool) {
        let compound = matches!(e, Expr::Bin(..) | Expr::Un(..) | Expr::Measure(_));
        let need = Self::needs_parens(e, ctx, strict, left_of_pow);
        let n = match self.parens {
            Parens::Minimal => need as usize,
            Parens::Full => (need || (compound && ctx > 0)) as usize,
            Parens::Redundant => {
                if matches!(e, Expr::Bin(..)) {
                    2
                } else {
                    need as usize
                }
            }
        };
        for _ in 0..n {
            self.t("(");
        }
        self.expr_inner(e);
        for _ in 0..n {
            self.t(")");
        }
    }

    fn expr_inner(&mut self, e: &Expr) {
        match e {
            Expr::Int(t) | Expr::Float(t) | Expr::Bits(t) | Expr::Id(t) | Expr::Hw(t) => self.t(t),
            Expr::Bool(b) => self.t(if *b { "true" } else { "false" }),
            Expr::Timing(n, _, u) => {
                self.t(n);
                self.toks.push(Tok { text: u.to_string(), line: false, unit: true, stmt: self.cur_stmt });
            }
            Expr::Bin(op, l, r) => {
                let p = op.prec();
                let ra = op.right_assoc();
                self.expr_lp(l, p, ra, *op == BinOp::Pow);
                self.t(op.text());
                self.expr_lp(r, p, !ra, false);
            }
            Expr::Un(op, e) => {
                self.t(op.text());
                // operand: `**` binds tighter than the unary operators, everything else looser
                self.expr_lp(e, UNARY_PREC, false, false);
            }
            Expr::Cast(t, e) => {
                self.ty(t);
                self.t("(");
                self.expr(e, 0, false);
                self.t(")");
            }
            Expr::Call(f, args) => {
                self.t(f);
                self.t("(");
                for (k, a) in args.iter().enumerate() {
                    if k > 0 {
                        self.t(",");
                    }
                    self.expr(a, 0, false);
                }
                self.t(")");
            }
            Expr::Index(b, i) => {
                // postfix binds tightest: any compound base needs parentheses
                let need = matches!(**b, Expr::Bin(..) | Expr::Un(..) | Expr::Measure(_) | Expr::Cast(..));
                let need = need && !matches!(**b, Expr::Cast(..));
                if need {
                    self.t("(");
                }
                self.expr_inner_or_paren(b);
                if need {
                    self.t(")");
                }
                self.index(i);
            }
            Expr::Measure(o) => {
                self.t("measure");
                self.operand(o);
            }
            Expr::Paren(e) => {
                self.t("(");
                self.expr(e, 0, false);
                self.t(")");
            }
        }
    }

    fn expr_inner_or_paren(&mut self, e: &Expr) {
        self.expr_inner(e)
    }

    fn mods(&mut self, mods: &[Modifier]) {
        for m in mods {
            match m {
                Modifier::Inv => self.t("inv"),
                Modifier::Pow(e) => {
                    self.t("pow");
                    self.t("(");
                    self.expr(e, 0, false);
                    self.t(")");
                }
                Modifier::Ctrl(e) | Modifier::NegCtrl(e) => {
                    self.t(if matches!(m, Modifier::Ctrl(_)) { "ctrl" } else { "negctrl" });
                    if let Some(e) = e {
                        self.t("(");
                        self.expr(e, 0, false);
                        self.t(")");
                    }
                }
            }
            self.t("@");
        }
    }

    /// Would an `else` written after this statement attach to an `if` inside it?
    fn dangling(s: &Stmt) -> bool {
        match s {
            Stmt::If { els: None, .. } => true,
            Stmt::If { els: Some(b), .. } => !b.block && Self::dangling(&b.stmts[0]),
            Stmt::While { body, .. } | Stmt::For { body, .. } => !body.block && Self::dangling(&body.stmts[0]),
            _ => false,
        }
    }

    fn body(&mut self, b: &Body) {
        if b.block {
            self.block(&b.stmts);
        } else {
            self.stmt(&b.stmts[0]);
        }
    }

    fn block(&mut self, stmts: &[Stmt]) {
        self.t("{");
        self.depth += 1;
        for s in stmts {
            self.stmt(s);
        }
        self.depth -= 1;
        self.t("}");
    }

    pub fn program(&mut self, stmts: &[Stmt]) {
        for (i, s) in stmts.iter().enumerate() {
            self.cur_stmt = i;
            self.stmt(s);
        }
    }

    pub fn stmt(&mut self, s: &Stmt) {
        match s {
            Stmt::Decl { konst, ty, name, init } => {
                if *konst {
                    self.t("const");
                }
                self.ty(ty);
                self.t(name);
                if let Some(e) = init {
                    self.t("=");
                    self.expr(e, 0, false);
                }
                self.t(";");
            }
            Stmt::Io { input, ty, name } => {
                self.t(if *input { "input" } else { "output" });
                self.ty(ty);
                self.t(name);
                self.t(";");
            }
            Stmt::Qubit { size, name } => {
                self.t("qubit");
                if let Some(e) = size {
                    self.t("[");
                    self.expr(e, 0, false);
                    self.t("]");
                }
                self.t(name);
                self.t(";");
            }
            Stmt::Alias { name, value } => {
                self.t("let");
                self.t(name);
                self.t("=");
                self.expr(value, 0, false);
                self.t(";");
            }
            Stmt::Assign { target, op, value } => {
                self.operand(target);
                match op {
                    None => self.t("="),
                    Some(o) => self.t(&format!("{}=", o.text())),
                }
                self.expr(value, 0, false);
                self.t(";");
            }
            Stmt::ExprStmt(e) => {
                self.expr(e, 0, false);
                self.t(";");
            }
            Stmt::GateCall { mods, name, args, operands } => {
                self.mods(mods);
                self.t(name);
                if let Some(a) = args {
                    self.t("(");
                    for (k, e) in a.iter().enumerate() {
                        if k > 0 {
                            self.t(",");
                        }
                        self.expr(e, 0, false);
                    }
                    self.t(")");
                }
                self.operands(operands);
                self.t(";");
            }
            Stmt::GPhase { mods, arg, operands } => {
                self.mods(mods);
                self.t("gphase");
                self.t("(");
                self.expr(arg, 0, false);
                self.t(")");
                self.operands(operands);
                self.t(";");
            }
            Stmt::Reset(o) => {
                self.t("reset");
                self.operand(o);
                self.t(";");
            }
            Stmt::Barrier(os) => {
                self.t("barrier");
                self.operands(os);
                self.t(";");
            }
            Stmt::Delay(e, os) => {
                self.t("delay");
                self.t("[");
                self.expr(e, 0, false);
                self.t("]");
                self.operands(os);
                self.t(";");
            }
            Stmt::If { cond, then, els } => {
                self.t("if");
                self.t("(");
                self.expr(cond, 0, false);
                self.t(")");
                if els.is_some() && !then.block && Self::dangling(&then.stmts[0]) {
                    // dangling else: the single-statement body must be braced to keep the
                    // `else` with this `if` (same S-expression, different printing)
                    self.block(&then.stmts);
                } else {
                    self.body(then);
                }
                if let Some(e) = els {
                    self.t("else");
                    self.body(e);
                }
            }
            Stmt::While { cond, body } => {
                self.t("while");
                self.t("(");
                self.expr(cond, 0, false);
                self.t(")");
                self.body(body);
            }
            Stmt::For { ty, var, iter, body } => {
                self.t("for");
                self.ty(ty);
                self.t(var);
                self.t("in");
                match iter {
                    ForIter::Range(a, s, b) => {
                        self.t("[");
                        self.expr(a, 0, false);
                        self.t(":");
                        if let Some(s) = s {
                            self.expr(s, 0, false);
                            self.t(":");
                        }
                        self.expr(b, 0, false);
                        self.t("]");
                    }
                    ForIter::Set(es) => {
                        self.t("{");
                        for (k, e) in es.iter().enumerate() {
                            if k > 0 {
                                self.t(",");
                            }
                            self.expr(e, 0, false);
                        }
                        self.t("}");
                    }
                    ForIter::E(e) => self.expr(e, 0, false),
                }
                self.body(body);
            }
            Stmt::Switch { control, cases, default } => {
                self.t("switch");
                self.t("(");
                self.expr(control, 0, false);
                self.t(")");
                self.t("{");
                for (vals, body) in cases {
                    self.t("case");
                    for (k, v) in vals.iter().enumerate() {
                        if k > 0 {
                            self.t(",");
                        }
                        self.expr(v, 0, false);
                    }
                    self.block(body);
                }
                if let Some(d) = default {
                    self.t("default");
                    self.block(d);
                }
                self.t("}");
            }
            Stmt::Break => {
                self.t("break");
                self.t(";");
            }
            Stmt::Continue => {
                self.t("continue");
                self.t(";");
            }
            Stmt::End => {
                self.t("end");
                self.t(";");
            }
            Stmt::Gate { name, params, qubits, body } => {
                self.t("gate");
                self.t(name);
                if let Some(ps) = params {
                    self.t("(");
                    for (k, p) in ps.iter().enumerate() {
                        if k > 0 {
                            self.t(",");
                        }
                        self.t(p);
                    }
                    self.t(")");
                }
                for (k, q) in qubits.iter().enumerate() {
                    if k > 0 {
                        self.t(",");
                    }
                    self.t(q);
                }
                self.block(body);
            }
            Stmt::Def { name, params, ret, body } => {
                self.t("def");
                self.t(name);
                self.t("(");
                for (k, (t, n)) in params.iter().enumerate() {
                    if k > 0 {
                        self.t(",");
                    }
                    if t.base == "qubit" {
                        self.t("qubit");
                        if let Some(w) = &t.width {
                            self.t("[");
                            self.expr(w, 0, false);
                            self.t("]");
                        }
                    } else {
                        self.ty(t);
                    }
                    self.t(n);
                }
                self.t(")");
                if let Some(t) = ret {
                    self.t("->");
                    self.ty(t);
                }
                self.block(body);
            }
            Stmt::Return(e) => {
                self.t("return");
                if let Some(e) = e {
                    self.expr(e, 0, false);
                }
                self.t(";");
            }
            Stmt::Include(f) => {
                self.t("include");
                self.t(f);
                self.t(";");
            }
            // a version statement carried as a raw item: the header lexeme and its `;` are two
            // tokens; the gap between them is nothing or blanks (like a unit after its number)
            Stmt::Pragma(t) if t.starts_with("OPENQASM ") && t.ends_with(';') => {
                self.t(&t[..t.len() - 1]);
                self.toks.push(Tok { text: ";".to_string(), line: false, unit: true, stmt: self.cur_stmt });
            }
            Stmt::Pragma(t) | Stmt::Annotation(t) => self.line(t),
        }
    }
}

pub fn print_program(stmts: &[Stmt], parens: Parens) -> Vec<Tok> {
    let mut p = Printer::new(parens);
    p.program(stmts);
    p.toks
}

pub fn print_expr(e: &Expr, parens: Parens) -> Vec<Tok> {
    let mut p = Printer::new(parens);
    p.expr(e, 0, false);
    p.toks
}

// ---------------------------------------------------------------------------------------
// Layout

fn wordish(c: char) -> bool {
    c.is_alphanumeric() || c == '_' || !c.is_ascii() || matches!(c, '.' | '$' | '#' | '@' | '"' | '\'')
}

fn opish(c: char) -> bool {
    matches!(c, '<' | '>' | '=' | '!' | '&' | '|' | '+' | '-' | '*' | '/' | '.' | ':' | '^' | '%' | '~')
}

/// Would writing `b` directly after `a` change the token stream (for the lexer or for the
/// parser, which glues adjacent punctuation into composite operators)?  Conservative.
pub fn must_separate(a: &str, b: &str) -> bool {
    let (la, fb) = match (a.chars().last(), b.chars().next()) {
        (Some(x), Some(y)) => (x, y),
        _ => return false,
    };
    (wordish(la) && wordish(fb)) || (opish(la) && opish(fb))
}

pub const SEPARATORS: &[&str] = &["", " ", "\n", "\t", "/*c*/", "//c\n", " \n  ", "//é√\n", "\r\n\u{b}\u{c}", "/** c **/"];

/// Join the tokens; `gap(i)` gives the separator wanted before token i (i >= 1).
pub fn layout(toks: &[Tok], gap: &dyn Fn(usize) -> &'static str) -> String {
    let mut out = String::new();
    for (i, t) in toks.iter().enumerate() {
        if i > 0 {
            let prev = &toks[i - 1];
            let mut sep: &str = gap(i);
            if t.unit && !sep.chars().all(|c| c == ' ' || c == '\t') {
                sep = " ";
            }
            if prev.line {
                out.push('\n');
                if sep.starts_with('\n') {
                    sep = &sep[1..];
                }
            }
            // a unit may be written directly after its number (`10ns`, `2.0im`)
            if sep.is_empty() && !prev.line && !t.unit && must_separate(&prev.text, &t.text) {
                sep = " ";
            }
            if sep.starts_with('/') && prev.text.ends_with('/') {
                out.push(' ');
            }
            if sep.starts_with('/') && prev.text.ends_with('*') {
                // `*` followed by `/*c*/` is fine, but keep it simple and unambiguous
                out.push(' ');
            }
            out.push_str(sep);
            if sep.ends_with('/') && t.text.starts_with('/') {
                out.push(' ');
            }
        }
        out.push_str(&t.text);
    }
    if toks.last().map(|t| t.line).unwrap_or(false) {
        out.push('\n');
    }
    out
}

pub fn layout_uniform(toks: &[Tok], sep: &'static str) -> String {
    layout(toks, &|_| sep)
}

pub fn text_of(stmts: &[Stmt]) -> String {
    layout_uniform(&print_program(stmts, Parens::Minimal), " ")
}
