//! The skeleton of the semantic graph: the canonical form predicted from the model
//! (`*_asg` functions) and the same form extracted from the real `asg::Program`
//! (`extract_*` functions) through its public accessors.
//!
//! Normalisations, applied on both sides: casts are transparent (the analyser makes implicit
//! conversions explicit), declared types are not part of the skeleton (they are C09's), a
//! negative literal is `(un - literal)`, floats are compared as values, symbol references
//! are shown by the *name* recorded in the final symbol table.

use super::prog::*;
use oq3_semantics::asg;
use oq3_semantics::symbols::{SymbolIdResult, SymbolTable};

fn list(items: impl IntoIterator<Item = String>) -> String {
    items.into_iter().collect::<Vec<_>>().join(" ")
}

fn float_norm(t: &str) -> String {
    match t.replace('_', "").parse::<f64>() {
        Ok(f) => format!("{:?}", f),
        Err(_) => format!("?{}", t),
    }
}

fn int_norm(t: &str) -> String {
    let t = t.replace('_', "");
    let v = if let Some(r) = t.strip_prefix("0x").or(t.strip_prefix("0X")) {
        u128::from_str_radix(r, 16)
    } else if let Some(r) = t.strip_prefix("0b").or(t.strip_prefix("0B")) {
        u128::from_str_radix(r, 2)
    } else if let Some(r) = t.strip_prefix("0o").or(t.strip_prefix("0O")) {
        u128::from_str_radix(r, 8)
    } else {
        t.parse::<u128>()
    };
    match v {
        Ok(v) => v.to_string(),
        Err(_) => format!("?{}", t),
    }
}

// ---------------------------------------------------------------------------------------
// predicted from the model

fn index_asg(i: &Index) -> String {
    match i {
        Index::List(items) => format!(
            "[{}]",
            list(items.iter().map(|it| match it {
                IndexItem::E(e) => expr_asg(e),
                IndexItem::Range(a, s, b) => range_asg(a, s.as_ref(), b),
            }))
        ),
        Index::Set(es) => format!("[(set {})]", list(es.iter().map(expr_asg))),
    }
}

fn range_asg(a: &Expr, s: Option<&Expr>, b: &Expr) -> String {
    match s {
        Some(s) => format!("(range {} {} {})", expr_asg(a), expr_asg(s), expr_asg(b)),
        None => format!("(range {} _ {})", expr_asg(a), expr_asg(b)),
    }
}

pub fn operand_asg(o: &Operand) -> String {
    match o {
        Operand::Id(n) => format!("(id {})", n),
        Operand::Hw(n) => format!("(hw {})", n),
        Operand::Indexed(n, idx) => format!("(indexed {} {})", n, list(idx.iter().map(index_asg))),
    }
}

pub fn expr_asg(e: &Expr) -> String {
    match e {
        Expr::Int(t) => format!("(int {})", int_norm(t)),
        Expr::Float(t) => format!("(float {})", float_norm(t)),
        Expr::Bool(b) => format!("(bool {})", b),
        Expr::Bits(t) => format!("(bits {})", t.trim_matches(|c| c == '"' || c == '\'')),
        Expr::Timing(n, f, u) => {
            let num = if *f { format!("(float {})", float_norm(n)) } else { format!("(int {})", int_norm(n)) };
            format!("(timing {} {})", num, if *u == "µs" { "us" } else { u })
        }
        Expr::Id(n) => format!("(id {})", n),
        Expr::Hw(n) => format!("(hw {})", n),
        Expr::Bin(op, l, r) => format!("(bin {} {} {})", op.text(), expr_asg(l), expr_asg(r)),
        Expr::Un(op, e) => format!("(un {} {})", op.text(), expr_asg(e)),
        Expr::Cast(_, e) => expr_asg(e),
        Expr::Call(f, args) => format!("(call {} ({}))", f, list(args.iter().map(expr_asg))),
        Expr::Index(b, i) => match &**b {
            // an identifier followed by index operators is one indexed identifier
            Expr::Id(n) => format!("(indexed {} {})", n, index_asg(i)),
            Expr::Index(bb, i0) if matches!(**bb, Expr::Id(_)) => {
                if let Expr::Id(n) = &**bb {
                    format!("(indexed {} {} {})", n, index_asg(i0), index_asg(i))
                } else {
                    unreachable!()
                }
            }
            _ => "(index-expr)".into(),
        },
        Expr::Measure(o) => format!("(measure {})", operand_asg(o)),
        Expr::Paren(e) => expr_asg(e),
    }
}

fn mods_asg(mods: &[Modifier]) -> String {
    list(mods.iter().map(|m| match m {
        Modifier::Inv => "inv".to_string(),
        Modifier::Pow(e) => format!("(pow {})", expr_asg(e)),
        Modifier::Ctrl(None) => "ctrl".into(),
        Modifier::Ctrl(Some(e)) => format!("(ctrl {})", expr_asg(e)),
        Modifier::NegCtrl(None) => "negctrl".into(),
        Modifier::NegCtrl(Some(e)) => format!("(negctrl {})", expr_asg(e)),
    }))
}

/// The statements of a body in graph form; annotations attach to the statement that follows
/// them, includes of the standard library vanish.
pub fn stmts_asg(stmts: &[Stmt]) -> String {
    let mut out = Vec::new();
    let mut pending: Vec<String> = Vec::new();
    for s in stmts {
        match s {
            Stmt::Annotation(t) => pending.push(format!("{:?}", t)),
            Stmt::Include(_) => {}
            _ => {
                let body = stmt_asg(s);
                if pending.is_empty() {
                    out.push(body);
                } else {
                    out.push(format!("(annotated ({}) {})", pending.join(" "), body));
                    pending.clear();
                }
            }
        }
    }
    out.join(" ")
}

pub fn stmt_asg(s: &Stmt) -> String {
    match s {
        Stmt::Decl { name, init, .. } => match init {
            Some(e) => format!("(decl {} {})", name, expr_asg(e)),
            None => format!("(decl {})", name),
        },
        Stmt::Io { input, name, .. } => format!("(io {} {})", if *input { "input" } else { "output" }, name),
        Stmt::Qubit { name, .. } => format!("(qubit {})", name),
        Stmt::Alias { name, value } => format!("(alias {} {})", name, expr_asg(value)),
        Stmt::Assign { target, op, value } => format!("(assign {}= {} {})", op.map(|o| o.text()).unwrap_or(""), operand_asg(target), expr_asg(value)),
        Stmt::ExprStmt(e) => format!("(expr {})", expr_asg(e)),
        Stmt::GateCall { mods, name, args, operands } => format!(
            "(gatecall ({}) {} {} ({}))",
            mods_asg(mods),
            name,
            match args {
                Some(a) => format!("({})", list(a.iter().map(expr_asg))),
                None => "_".into(),
            },
            list(operands.iter().map(operand_asg))
        ),
        Stmt::GPhase { mods, arg, .. } => format!("(gphase ({}) {})", mods_asg(mods), expr_asg(arg)),
        Stmt::Reset(o) => format!("(reset {})", operand_asg(o)),
        Stmt::Barrier(os) => format!("(barrier {})", list(os.iter().map(operand_asg))),
        Stmt::Delay(e, os) => format!("(delay {} ({}))", expr_asg(e), list(os.iter().map(operand_asg))),
        Stmt::If { cond, then, els } => format!(
            "(if {} (then {}){})",
            expr_asg(cond),
            stmts_asg(&then.stmts),
            els.as_ref().map(|b| format!(" (else {})", stmts_asg(&b.stmts))).unwrap_or_default()
        ),
        Stmt::While { cond, body } => format!("(while {} (body {}))", expr_asg(cond), stmts_asg(&body.stmts)),
        Stmt::For { var, iter, body, .. } => format!(
            "(for {} {} (body {}))",
            var,
            match iter {
                ForIter::Range(a, s, b) => range_asg(a, s.as_ref(), b),
                ForIter::Set(es) => format!("(set {})", list(es.iter().map(expr_asg))),
                ForIter::E(e) => expr_asg(e),
            },
            stmts_asg(&body.stmts)
        ),
        Stmt::Switch { control, cases, default } => format!(
            "(switch {} {}{})",
            expr_asg(control),
            list(cases.iter().map(|(vals, body)| format!("(case ({}) ({}))", list(vals.iter().map(expr_asg)), stmts_asg(body)))),
            default.as_ref().map(|d| format!(" (default {})", stmts_asg(d))).unwrap_or_default()
        ),
        Stmt::Break => "break".into(),
        Stmt::Continue => "continue".into(),
        Stmt::End => "end".into(),
        Stmt::Gate { name, params, qubits, body } => format!(
            "(gate {} {} ({}) (body {}))",
            name,
            match params {
                Some(p) => format!("({})", p.join(" ")),
                None => "_".into(),
            },
            qubits.join(" "),
            stmts_asg(body)
        ),
        Stmt::Def { name, params, body, .. } => format!("(def {} ({}) (body {}))", name, list(params.iter().map(|(_, n)| n.clone())), stmts_asg(body)),
        Stmt::Return(e) => match e {
            Some(e) => format!("(expr (return {}))", expr_asg(e)),
            None => "(expr (return))".into(),
        },
        Stmt::Include(f) => format!("(include {})", f),
        Stmt::Pragma(t) => {
            let body = t.strip_prefix("#pragma").or(t.strip_prefix("pragma")).unwrap_or(t);
            format!("(pragma {:?})", body)
        }
        Stmt::Annotation(t) => format!("(annotation {:?})", t),
    }
}

// ---------------------------------------------------------------------------------------
// extracted from the real graph

pub struct Extractor<'a> {
    pub table: &'a SymbolTable,
}

impl<'a> Extractor<'a> {
    fn name(&self, r: &SymbolIdResult) -> String {
        match r {
            Ok(id) => self.table[id].name().to_string(),
            Err(e) => format!("?{:?}", e),
        }
    }

    fn index_op(&self, i: &asg::IndexOperator) -> String {
        match i {
            asg::IndexOperator::SetExpression(s) => format!("[(set {})]", list(s.expressions().iter().map(|e| self.texpr(e)))),
            asg::IndexOperator::ExpressionList(el) => format!("[{}]", list(el.expressions.iter().map(|e| self.texpr(e)))),
        }
    }

    fn indexed(&self, ii: &asg::IndexedIdentifier) -> String {
        format!("(indexed {} {})", self.name(ii.identifier()), list(ii.indexes().iter().map(|i| self.index_op(i))))
    }

    fn literal(&self, l: &asg::Literal) -> String {
        let signed = |sign: bool, body: String| if sign { body } else { format!("(un - {})", body) };
        match l {
            asg::Literal::Bool(b) => format!("(bool {})", b.value()),
            asg::Literal::Int(i) => signed(*i.sign(), format!("(int {})", i.value())),
            asg::Literal::Float(f) => {
                let v = f.value();
                match v.strip_prefix('-') {
                    Some(p) => format!("(un - (float {}))", float_norm(p)),
                    None => format!("(float {})", float_norm(v)),
                }
            }
            asg::Literal::ImaginaryInt(i) => signed(*i.sign(), format!("(timing (int {}) im)", i.value())),
            asg::Literal::ImaginaryFloat(f) => {
                let v = f.value();
                match v.strip_prefix('-') {
                    Some(p) => format!("(un - (timing (float {}) im))", float_norm(p)),
                    None => format!("(timing (float {}) im)", float_norm(v)),
                }
            }
            asg::Literal::BitString(b) => format!("(bits {})", b.value()),
            asg::Literal::TimingIntLiteral(t) => signed(*t.sign(), format!("(timing (int {}) {})", t.value(), unit(t.time_unit()))),
            asg::Literal::TimingFloatLiteral(t) => signed(*t.sign(), format!("(timing (float {:?}) {})", t.value(), unit(t.time_unit()))),
            asg::Literal::Array => "(array)".into(),
        }
    }

    pub fn texpr(&self, t: &asg::TExpr) -> String {
        self.expr(t.expression())
    }

    fn expr(&self, e: &asg::Expr) -> String {
        match e {
            asg::Expr::BinaryExpr(b) => {
                let op = match b.op() {
                    asg::BinaryOp::ArithOp(a) => match a {
                        asg::ArithOp::Add => "+",
                        asg::ArithOp::Sub => "-",
                        asg::ArithOp::Mul => "*",
                        asg::ArithOp::Div => "/",
                        asg::ArithOp::Mod => "mod",
                        asg::ArithOp::Rem => "%",
                        asg::ArithOp::Shl => "<<",
                        asg::ArithOp::Shr => ">>",
                        asg::ArithOp::BitXOr => "^",
                        asg::ArithOp::BitOr => "|",
                        asg::ArithOp::BitAnd => "&",
                    },
                    asg::BinaryOp::CmpOp(asg::CmpOp::Eq) => "==",
                    asg::BinaryOp::CmpOp(asg::CmpOp::Neq) => "!=",
                    asg::BinaryOp::ConcatenationOp => "++",
                    asg::BinaryOp::PowerOp => "**",
                };
                format!("(bin {} {} {})", op, self.texpr(b.left()), self.texpr(b.right()))
            }
            asg::Expr::UnaryExpr(u) => {
                let op = match u.op() {
                    asg::UnaryOp::Minus => "-",
                    asg::UnaryOp::Not => "!",
                    asg::UnaryOp::BitNot => "~",
                };
                format!("(un {} {})", op, self.texpr(u.operand()))
            }
            asg::Expr::Literal(l) => self.literal(l),
            asg::Expr::Cast(c) => self.texpr(c.operand()),
            asg::Expr::Identifier(r) => format!("(id {})", self.name(r)),
            asg::Expr::HardwareQubit(h) => format!("(hw {})", h.identifier()),
            // IndexExpression has no public accessors for its parts: only its presence is recorded
            asg::Expr::IndexExpression(_) => "(index-expr)".into(),
            asg::Expr::IndexedIdentifier(ii) => self.indexed(ii),
            asg::Expr::GateOperand(g) => self.gate_operand(g),
            asg::Expr::Return(r) => match r.value() {
                Some(v) => format!("(return {})", self.texpr(v)),
                None => "(return)".into(),
            },
            asg::Expr::SubroutineCall(c) => format!(
                "(call {} ({}))",
                self.name(c.name()),
                c.params().map(|p| list(p.iter().map(|e| self.texpr(e)))).unwrap_or_default()
            ),
            asg::Expr::MeasureExpression(m) => format!("(measure {})", self.texpr(m.operand())),
            asg::Expr::SetExpression(s) => format!("(set {})", list(s.expressions().iter().map(|e| self.texpr(e)))),
            asg::Expr::RangeExpression(r) => self.range(r),
            asg::Expr::NullExpr => "(null-expr)".into(),
        }
    }

    fn range(&self, r: &asg::RangeExpression) -> String {
        match r.step() {
            Some(s) => format!("(range {} {} {})", self.texpr(r.start()), self.texpr(s), self.texpr(r.stop())),
            None => format!("(range {} _ {})", self.texpr(r.start()), self.texpr(r.stop())),
        }
    }

    fn gate_operand(&self, g: &asg::GateOperand) -> String {
        match g {
            asg::GateOperand::Identifier(r) => format!("(id {})", self.name(r)),
            asg::GateOperand::HardwareQubit(h) => format!("(hw {})", h.identifier()),
            asg::GateOperand::IndexedIdentifier(ii) => self.indexed(ii),
        }
    }

    fn mods(&self, mods: &[asg::GateModifier]) -> String {
        list(mods.iter().map(|m| match m {
            asg::GateModifier::Inv => "inv".to_string(),
            asg::GateModifier::Pow(e) => format!("(pow {})", self.texpr(e)),
            asg::GateModifier::Ctrl(None) => "ctrl".into(),
            asg::GateModifier::Ctrl(Some(e)) => format!("(ctrl {})", self.texpr(e)),
            asg::GateModifier::NegCtrl(None) => "negctrl".into(),
            asg::GateModifier::NegCtrl(Some(e)) => format!("(negctrl {})", self.texpr(e)),
        }))
    }

    pub fn stmts(&self, stmts: &[asg::Stmt]) -> String {
        list(stmts.iter().map(|s| self.stmt(s)))
    }

    pub fn stmt(&self, s: &asg::Stmt) -> String {
        match s {
            asg::Stmt::DeclareClassical(d) => match d.initializer() {
                Some(e) => format!("(decl {} {})", self.name(d.name()), self.texpr(e)),
                None => format!("(decl {})", self.name(d.name())),
            },
            asg::Stmt::InputDeclaration(d) => format!("(io input {})", self.name(d.name())),
            asg::Stmt::OutputDeclaration(d) => format!("(io output {})", self.name(d.name())),
            asg::Stmt::DeclareQuantum(d) => format!("(qubit {})", self.name(d.name())),
            asg::Stmt::DeclareHardwareQubit(d) => format!("(qubit {})", d.name().identifier()),
            asg::Stmt::Alias(a) => format!("(alias {} {})", self.name(a.name()), self.texpr(a.rhs())),
            asg::Stmt::Assignment(a) => {
                let lv = match a.lvalue() {
                    asg::LValue::Identifier(r) => format!("(id {})", self.name(r)),
                    asg::LValue::IndexedIdentifier(ii) => self.indexed(ii),
                };
                format!("(assign = {} {})", lv, self.texpr(a.rvalue()))
            }
            asg::Stmt::ExprStmt(t) => format!("(expr {})", self.texpr(t)),
            asg::Stmt::GateCall(g) => format!(
                "(gatecall ({}) {} {} ({}))",
                self.mods(g.modifiers()),
                self.name(g.name()),
                match g.params() {
                    Some(p) => format!("({})", list(p.iter().map(|e| self.texpr(e)))),
                    None => "_".into(),
                },
                list(g.qubits().iter().map(|e| self.texpr(e)))
            ),
            asg::Stmt::GPhaseCall(g) => format!("(gphase () {})", self.texpr(g.arg())),
            asg::Stmt::ModifiedGPhaseCall(g) => format!("(gphase ({}) {})", self.mods(g.modifiers()), self.texpr(g.arg())),
            asg::Stmt::Reset(r) => format!("(reset {})", self.texpr(r.gate_operand())),
            asg::Stmt::Barrier(b) => format!("(barrier {})", b.qubits().map(|q| list(q.iter().map(|e| self.texpr(e)))).unwrap_or_default()),
            asg::Stmt::Delay(d) => format!("(delay {} ({}))", self.texpr(d.duration()), list(d.qubits().iter().map(|e| self.texpr(e)))),
            asg::Stmt::If(i) => format!(
                "(if {} (then {}){})",
                self.texpr(i.condition()),
                self.stmts(i.then_branch().statements()),
                i.else_branch().map(|b| format!(" (else {})", self.stmts(b.statements()))).unwrap_or_default()
            ),
            asg::Stmt::While(w) => format!("(while {} (body {}))", self.texpr(w.condition()), self.stmts(w.loop_body().statements())),
            asg::Stmt::ForStmt(f) => format!(
                "(for {} {} (body {}))",
                self.name(f.loop_var()),
                match f.iterable() {
                    asg::ForIterable::SetExpression(s) => format!("(set {})", list(s.expressions().iter().map(|e| self.texpr(e)))),
                    asg::ForIterable::RangeExpression(r) => self.range(r),
                    asg::ForIterable::Expr(e) => self.texpr(e),
                },
                self.stmts(f.loop_body().statements())
            ),
            asg::Stmt::SwitchCaseStmt(sw) => format!(
                "(switch {} {}{})",
                self.texpr(sw.control()),
                list(sw.cases().iter().map(|c| format!("(case ({}) ({}))", list(c.control_values().iter().map(|e| self.texpr(e))), self.stmts(c.statements())))),
                sw.default_block().map(|d| format!(" (default {})", self.stmts(d))).unwrap_or_default()
            ),
            asg::Stmt::Break => "break".into(),
            asg::Stmt::Continue => "continue".into(),
            asg::Stmt::End => "end".into(),
            asg::Stmt::GateDefinition(g) => format!(
                "(gate {} {} ({}) (body {}))",
                self.name(g.name()),
                match g.params() {
                    Some(p) => format!("({})", list(p.iter().map(|r| self.name(r)))),
                    None => "_".into(),
                },
                list(g.qubits().iter().map(|r| self.name(r))),
                self.stmts(g.block().statements())
            ),
            asg::Stmt::DefStmt(d) => format!("(def {} ({}) (body {}))", self.name(d.name()), list(d.params().iter().map(|r| self.name(r))), self.stmts(d.block().statements())),
            asg::Stmt::Pragma(p) => format!("(pragma {:?})", p.pragma_text()),
            asg::Stmt::AnnotatedStmt(a) => format!("(annotated ({}) {})", list(a.annotations().iter().map(|x| format!("{:?}", x.annotation_text()))), self.stmt(a.statement())),
            asg::Stmt::Block(b) => format!("(block {})", self.stmts(b.statements())),
            asg::Stmt::Include(i) => format!("(include {})", i.file_path()),
            asg::Stmt::NullStmt => "(null)".into(),
            other => format!("(stub {:?})", other).chars().take(24).collect(),
        }
    }
}

fn unit(u: &asg::TimeUnit) -> &'static str {
    match u {
        asg::TimeUnit::Second => "s",
        asg::TimeUnit::MilliSecond => "ms",
        asg::TimeUnit::MicroSecond => "us",
        asg::TimeUnit::NanoSecond => "ns",
        asg::TimeUnit::Cycle => "dt",
    }
}
