//! Reference models (DESIGN.md section 5).
pub mod asg_form;
pub mod ast_extract;
pub mod gen;
pub mod prog;

use crate::core::{Ctx, Space};
use prog::Stmt;
use serde_json::{json, Value};

/// One generated program with a tag describing how it was built (used as failure locus).
pub struct ProgCase {
    pub stmts: Vec<Stmt>,
    pub tag: String,
}

/// A space of model programs given as a function from an index to a program.
pub struct ProgSpace {
    pub name: String,
    pub count: u64,
    pub per_block: u64,
    pub gen: Box<dyn Fn(u64) -> Option<ProgCase> + Send + Sync>,
    pub oracle: fn(&ProgCase, u64, &mut Ctx),
    pub desc: Value,
    pub timeout_s: u64,
}

impl Space for ProgSpace {
    fn name(&self) -> String {
        self.name.clone()
    }
    fn describe(&self) -> Value {
        let mut d = self.desc.clone();
        d["indices"] = json!(self.count);
        d
    }
    fn num_blocks(&self) -> u64 {
        ((self.count + self.per_block - 1) / self.per_block).max(1)
    }
    fn run_block(&self, block: u64, ctx: &mut Ctx) {
        let lo = block * self.per_block;
        let hi = (lo + self.per_block).min(self.count);
        for i in lo..hi {
            if let Some(case) = (self.gen)(i) {
                if ctx.begin(|| json!({"index": i, "tag": case.tag, "text": prog::text_of(&case.stmts)})) {
                    (self.oracle)(&case, i, ctx);
                }
            }
        }
    }
    fn replay(&self, case: &Value, ctx: &mut Ctx) {
        if let Some(i) = case["index"].as_u64() {
            if let Some(c) = (self.gen)(i) {
                ctx.begin(|| case.clone());
                (self.oracle)(&c, i, ctx);
            }
        }
    }
    fn block_timeout_s(&self) -> u64 {
        self.timeout_s
    }
}
