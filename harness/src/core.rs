//! Core abstractions shared by every check: spaces, the per-block context, failures,
//! panic capture.
//!
//! A *space* is a finite, deterministic enumeration of cases, cut into *blocks* so that the
//! driver can distribute it over worker processes and re-run one block case by case when a
//! worker dies or stalls.  The oracle of the property is evaluated on every case.

use crate::findings::Findings;
use serde_json::{json, Value};
use std::cell::RefCell;
use std::collections::{BTreeMap, HashSet};
use std::io::Write;
use std::panic::{self, AssertUnwindSafe};

#[derive(Clone, Copy, Debug, PartialEq, Eq)]
pub enum Tier {
    Quick,
    Thorough,
}

impl Tier {
    pub fn name(self) -> &'static str {
        match self {
            Tier::Quick => "quick",
            Tier::Thorough => "thorough",
        }
    }
    pub fn parse(s: &str) -> Option<Tier> {
        match s {
            "quick" => Some(Tier::Quick),
            "thorough" => Some(Tier::Thorough),
            _ => None,
        }
    }
    pub fn is_thorough(self) -> bool {
        self == Tier::Thorough
    }
}

/// One violated oracle clause on one case.
#[derive(Clone, Debug)]
pub struct Failure {
    /// Which clause of the oracle failed.
    pub rule: String,
    /// Canonical, line-number-free rendering of the input.
    pub witness: String,
    /// Where it failed (panic file + message, model construct, ...). May be empty.
    pub locus: String,
    /// Expected vs observed, free text.
    pub detail: String,
    /// What `Space::replay` needs to re-run this single case.
    pub case: Value,
}

impl Failure {
    pub fn to_json(&self) -> Value {
        json!({"rule": self.rule, "witness": self.witness, "locus": self.locus,
               "detail": self.detail, "case": self.case})
    }
    pub fn from_json(v: &Value) -> Failure {
        Failure {
            rule: v["rule"].as_str().unwrap_or("").to_string(),
            witness: v["witness"].as_str().unwrap_or("").to_string(),
            locus: v["locus"].as_str().unwrap_or("").to_string(),
            detail: v["detail"].as_str().unwrap_or("").to_string(),
            case: v["case"].clone(),
        }
    }
}

pub trait Space: Send + Sync {
    fn name(&self) -> String;
    /// Static description: alphabet, bounds, cardinality.
    fn describe(&self) -> Value;
    fn num_blocks(&self) -> u64;
    /// Enumerate every case of the block, evaluating the oracle on each.
    fn run_block(&self, block: u64, ctx: &mut Ctx);
    /// Re-run the oracle on one case taken from a replay file.
    fn replay(&self, case: &Value, ctx: &mut Ctx);
    /// False if this space is a capped part of a larger stated space.
    fn exhaustive(&self) -> bool {
        true
    }
    /// Seconds without a finished block after which the driver considers a worker stalled.
    fn block_timeout_s(&self) -> u64 {
        60
    }
}

pub const MAX_FAILS_PER_BLOCK: usize = 12;

/// Failures collected per block (the total is always counted); raised by the triage helper.
pub fn max_fails_per_block() -> usize {
    static N: std::sync::OnceLock<usize> = std::sync::OnceLock::new();
    *N.get_or_init(|| std::env::var("VERIF_MAX_FAILS").ok().and_then(|s| s.parse().ok()).unwrap_or(MAX_FAILS_PER_BLOCK))
}
pub const MAX_HASHES: usize = 400_000;

/// Per-block accumulator handed to `Space::run_block`.
pub struct Ctx<'a> {
    pub prop: &'static str,
    pub findings: &'a Findings,
    /// Step mode: announce every case before running it, skip cases below `from`.
    pub step: Option<u64>,
    pub proto: Option<Box<dyn Write>>,
    /// Step mode: write uncovered failures to `proto` immediately instead of collecting them.
    pub emit_fails: bool,
    pub case_no: u64,
    pub evals: u64,
    pub nontrivial: u64,
    /// Named sets of hashes, used to count distinct things (non-trivial cases, outcomes,
    /// reference states, transitions).
    pub sets: BTreeMap<String, HashSet<u64>>,
    pub known_hits: BTreeMap<usize, (u64, String)>,
    pub failures: Vec<Failure>,
    pub fail_total: u64,
    pub sample: Option<Value>,
    pub last_sample: Option<Value>,
    pub counters: BTreeMap<String, u64>,
    pub maxima: BTreeMap<String, u64>,
    /// Keys merged into the `case` of every failure while set (an oracle that derives many
    /// texts from one enumerated case records the case's index, so that the replay can
    /// regenerate it).
    pub case_extra: Option<Value>,
    skipping: bool,
}

impl<'a> Ctx<'a> {
    pub fn new(prop: &'static str, findings: &'a Findings) -> Ctx<'a> {
        Ctx {
            prop,
            findings,
            step: None,
            proto: None,
            emit_fails: false,
            case_no: 0,
            evals: 0,
            nontrivial: 0,
            sets: BTreeMap::new(),
            known_hits: BTreeMap::new(),
            failures: Vec::new(),
            fail_total: 0,
            sample: None,
            last_sample: None,
            counters: BTreeMap::new(),
            maxima: BTreeMap::new(),
            case_extra: None,
            skipping: false,
        }
    }

    /// Start the next case.  Returns false if the case must be skipped (step mode, below the
    /// resume index).  `describe` is only called when a description is needed.
    pub fn begin(&mut self, describe: impl FnOnce() -> Value) -> bool {
        let i = self.case_no;
        self.case_no += 1;
        if let Some(from) = self.step {
            if i < from {
                self.skipping = true;
                return false;
            }
            self.skipping = false;
            let d = describe();
            if let Some(p) = self.proto.as_mut() {
                let _ = writeln!(p, "{}", json!({"t":"case","i":i,"case":d}));
                let _ = p.flush();
            }
            self.evals += 1;
            return true;
        }
        self.evals += 1;
        if self.sample.is_none() {
            self.sample = Some(describe());
        } else if self.evals % 4096 == 0 {
            self.last_sample = Some(describe());
        }
        true
    }

    /// Mark the current case as non-trivial under the property's rule; `h` identifies the case.
    pub fn mark_nontrivial(&mut self, h: u64) {
        self.nontrivial += 1;
        self.distinct("nontrivial", h);
    }

    /// Record a hash of the observed outcome (to count distinct outcomes).
    pub fn outcome(&mut self, h: u64) {
        self.distinct("outcomes", h);
    }

    /// Add `h` to the named set of hashes.
    pub fn distinct(&mut self, key: &str, h: u64) {
        if let Some(set) = self.sets.get_mut(key) {
            if set.len() < MAX_HASHES {
                set.insert(h);
            }
            return;
        }
        let mut set = HashSet::new();
        set.insert(h);
        self.sets.insert(key.to_string(), set);
    }

    pub fn count(&mut self, key: &str, n: u64) {
        *self.counters.entry(key.to_string()).or_insert(0) += n;
    }

    pub fn maximum(&mut self, key: &str, n: u64) {
        let e = self.maxima.entry(key.to_string()).or_insert(0);
        if n > *e {
            *e = n;
        }
    }

    pub fn fail(&mut self, mut f: Failure) {
        if let Some(Value::Object(extra)) = &self.case_extra {
            if !f.case.is_object() {
                f.case = json!({});
            }
            for (k, v) in extra {
                f.case[k.as_str()] = v.clone();
            }
        }
        if let Some(idx) = self.findings.matching(self.prop, &f) {
            let e = self.known_hits.entry(idx).or_insert((0, f.witness.clone()));
            e.0 += 1;
            return;
        }
        self.fail_total += 1;
        if self.emit_fails {
            if let Some(p) = self.proto.as_mut() {
                let mut v = f.to_json();
                v["t"] = json!("fail");
                let _ = writeln!(p, "{}", v);
                let _ = p.flush();
            }
            return;
        }
        if self.failures.len() < max_fails_per_block() {
            self.failures.push(f);
        }
    }

    pub fn fail_text(&mut self, rule: &str, text: &str, locus: &str, detail: String) {
        self.fail(Failure {
            rule: rule.to_string(),
            witness: text.to_string(),
            locus: locus.to_string(),
            detail,
            case: json!({"text": text}),
        });
    }
}

// ---------------------------------------------------------------------------------------
// Panic capture

#[derive(Clone, Debug)]
pub struct PanicInfo {
    /// Crate-relative file of the panic site (no line number).
    pub file: String,
    pub line: u32,
    pub message: String,
}

impl PanicInfo {
    /// Stable identity: file + message with run-dependent payload stripped.
    pub fn locus(&self) -> String {
        // file + message + the source text of the panicking line: stable when lines shift,
        // and distinguishes the many `unwrap()` sites that share one message
        format!("{} | {} @ {}", self.file, normalize_message(&self.message), source_line(&self.file, self.line))
    }
}

thread_local! {
    static LAST_PANIC: RefCell<Option<PanicInfo>> = const { RefCell::new(None) };
}

thread_local! {
    static SOURCES: RefCell<BTreeMap<String, Vec<String>>> = const { RefCell::new(BTreeMap::new()) };
}

/// The trimmed text of line `line` of a subject source file (empty if not available).
fn source_line(file: &str, line: u32) -> String {
    if line == 0 || !file.starts_with("oq3_") {
        return String::new();
    }
    SOURCES.with(|s| {
        let mut s = s.borrow_mut();
        let lines = s.entry(file.to_string()).or_insert_with(|| {
            std::fs::read_to_string(format!("/repo/crates/{}", file)).map(|t| t.lines().map(|l| l.trim().to_string()).collect()).unwrap_or_default()
        });
        // a method chain split over several lines (`.unwrap()` alone on its line) is joined
        // with the lines above it
        let mut i = line as usize - 1;
        let mut text = lines.get(i).cloned().unwrap_or_default();
        while i > 0 && (text.starts_with('.') || text.starts_with(')') || text.starts_with("||")) && text.len() < 200 {
            i -= 1;
            text = format!("{}{}", lines[i], text);
        }
        text.chars().take(120).collect()
    })
}

fn strip_path(p: &str) -> String {
    // keep the path below `crates/` for subject files, the file name for anything else
    if let Some(i) = p.find("/crates/") {
        return p[i + 8..].to_string();
    }
    if let Some(i) = p.find("/registry/src/") {
        let rest = &p[i + 14..];
        if let Some(j) = rest.find('/') {
            return rest[j + 1..].to_string();
        }
    }
    if let Some(i) = p.find("/library/") {
        return p[i + 1..].to_string();
    }
    p.to_string()
}

/// Remove payload that depends on the input (numbers, quoted text, debug dumps) so that the same
/// panic site yields the same locus for different inputs.
pub fn normalize_message(m: &str) -> String {
    let first = m.lines().next().unwrap_or("");
    let mut out = String::new();
    let mut in_digits = false;
    for c in first.chars().take(160) {
        if c.is_ascii_digit() {
            if !in_digits {
                out.push('N');
                in_digits = true;
            }
        } else {
            in_digits = false;
            out.push(c);
        }
    }
    out
}

pub fn install_panic_hook() {
    panic::set_hook(Box::new(|info| {
        let (file, line) = match info.location() {
            Some(l) => (strip_path(l.file()), l.line()),
            None => ("?".to_string(), 0),
        };
        let message = if let Some(s) = info.payload().downcast_ref::<&str>() {
            s.to_string()
        } else if let Some(s) = info.payload().downcast_ref::<String>() {
            s.clone()
        } else {
            "<non-string panic payload>".to_string()
        };
        LAST_PANIC.with(|p| {
            *p.borrow_mut() = Some(PanicInfo {
                file,
                line,
                message,
            })
        });
    }));
}

/// Run `f`, turning a panic of the subject into a value.
pub fn catch<T>(f: impl FnOnce() -> T) -> Result<T, PanicInfo> {
    LAST_PANIC.with(|p| *p.borrow_mut() = None);
    match panic::catch_unwind(AssertUnwindSafe(f)) {
        Ok(v) => Ok(v),
        Err(_) => Err(LAST_PANIC.with(|p| p.borrow_mut().take()).unwrap_or(PanicInfo {
            file: "?".into(),
            line: 0,
            message: "<panic without hook info>".into(),
        })),
    }
}

// ---------------------------------------------------------------------------------------
// Hashing (FNV-1a 64, deterministic across runs and processes)

pub fn fnv(bytes: &[u8]) -> u64 {
    let mut h: u64 = 0xcbf29ce484222325;
    for b in bytes {
        h ^= *b as u64;
        h = h.wrapping_mul(0x100000001b3);
    }
    h
}

pub fn fnv_str(s: &str) -> u64 {
    fnv(s.as_bytes())
}

pub fn fnv_mix(a: u64, b: u64) -> u64 {
    let mut h = a ^ 0x9e3779b97f4a7c15;
    h = h.wrapping_mul(0x100000001b3);
    h ^= b;
    h = h.wrapping_mul(0x100000001b3);
    h ^ (h >> 29)
}

/// Escape a text for one-line display.
pub fn show(s: &str) -> String {
    let mut out = String::new();
    for c in s.chars() {
        match c {
            '\n' => out.push_str("\\n"),
            '\r' => out.push_str("\\r"),
            '\t' => out.push_str("\\t"),
            '\0' => out.push_str("\\0"),
            c => out.push(c),
        }
    }
    out
}
