//! Driver: distributes the blocks of a property's spaces over worker processes, survives
//! worker death and stalls (re-running the block case by case to pinpoint the input),
//! classifies failures against the known findings, replays new failures twice, prints the
//! verdict lines and writes the evidence file.
//!
//! Exit codes: 0 = held on everything explored (possibly with KNOWN-FINDING lines),
//! 1 = at least one unlisted violation, 2 = machinery error (never a verdict).

use crate::core::*;
use crate::findings::Findings;
use crate::props;
use serde_json::{json, Value};
use std::collections::{BTreeMap, HashMap, HashSet, VecDeque};
use std::io::{BufRead, BufReader, Write};
use std::process::{Child, ChildStdin, Command, Stdio};
use std::sync::mpsc::{channel, RecvTimeoutError, Sender};
use std::time::{Duration, Instant};

/// Print a line to stdout; a closed pipe must not turn a verdict into a panic.
macro_rules! out {
    ($($arg:tt)*) => {{
        let _ = writeln!(std::io::stdout(), $($arg)*);
    }};
}

const MAX_INCIDENTS_PER_BLOCK: usize = 2;
/// After this many blocks of one space have killed or stalled a worker the remaining blocks of
/// that space are skipped (the run is a failure anyway; the evidence says `exhaustive: false`).
const MAX_DEAD_BLOCKS_PER_SPACE: usize = 2;
/// Deadline of the replay of a recorded hang.
const HANG_REPLAY_TIMEOUT_S: u64 = 20;
const STEP_CASE_TIMEOUT_S: u64 = 15;
const HANG_CONFIRM_TIMEOUT_S: u64 = 30;
const MAX_REPORTED: usize = 5;

enum Msg {
    Line(usize, String),
    Eof(usize),
    Stepped(usize, u64, SteppedBlock),
}

struct SteppedBlock {
    evals: u64,
    done: Option<Value>,
    fails: Vec<Failure>,
    incidents: Vec<Failure>,
    complete: bool,
    sets: Vec<Value>,
}

struct Worker {
    child: Child,
    stdin: Option<ChildStdin>,
    busy: Option<(usize, u64, Instant)>,
    alive: bool,
    quitting: bool,
}

fn exe() -> std::path::PathBuf {
    std::env::current_exe().expect("current_exe")
}

fn spawn_worker(prop: &str, tier: Tier, seed: u64, id: usize, tx: &Sender<Msg>) -> Worker {
    let mut child = Command::new(exe())
        .args(["worker", prop, tier.name(), &seed.to_string()])
        .stdin(Stdio::piped())
        .stdout(Stdio::piped())
        .stderr(Stdio::null())
        .spawn()
        .expect("spawn worker");
    let stdout = child.stdout.take().unwrap();
    let stdin = child.stdin.take();
    let tx = tx.clone();
    std::thread::spawn(move || {
        let r = BufReader::new(stdout);
        for line in r.lines() {
            match line {
                Ok(l) => {
                    if tx.send(Msg::Line(id, l)).is_err() {
                        return;
                    }
                }
                Err(_) => break,
            }
        }
        let _ = tx.send(Msg::Eof(id));
    });
    Worker {
        child,
        stdin,
        busy: None,
        alive: true,
        quitting: false,
    }
}

#[derive(Default)]
struct Agg {
    evals: u64,
    nontrivial: u64,
    known: BTreeMap<usize, (u64, String)>,
    fails: Vec<(usize, u64, Failure)>,
    fail_total: u64,
    samples: Vec<Value>,
    counters: BTreeMap<String, u64>,
    maxima: BTreeMap<String, u64>,
    sets: BTreeMap<String, HashSet<u64>>,
    blocks_done: u64,
    incomplete_blocks: Vec<(usize, u64)>,
    per_space_evals: BTreeMap<usize, u64>,
}

impl Agg {
    fn add_done(&mut self, v: &Value, step_evals: Option<u64>) {
        let s = v["space"].as_u64().unwrap_or(0) as usize;
        let b = v["block"].as_u64().unwrap_or(0);
        let evals = step_evals.unwrap_or_else(|| v["evals"].as_u64().unwrap_or(0));
        self.evals += evals;
        *self.per_space_evals.entry(s).or_insert(0) += evals;
        self.nontrivial += v["nontrivial"].as_u64().unwrap_or(0);
        if let Some(k) = v["known"].as_object() {
            for (idx, val) in k {
                let idx: usize = idx.parse().unwrap_or(usize::MAX);
                let n = val[0].as_u64().unwrap_or(0);
                let w = val[1].as_str().unwrap_or("").to_string();
                let e = self.known.entry(idx).or_insert((0, w));
                e.0 += n;
            }
        }
        if let Some(fs) = v["fails"].as_array() {
            for f in fs {
                self.fails.push((s, b, Failure::from_json(f)));
            }
        }
        self.fail_total += v["fail_total"].as_u64().unwrap_or(0);
        if self.samples.len() < 6 && !v["sample"].is_null() && (self.blocks_done % 3 == 0) {
            self.samples.push(v["sample"].clone());
        }
        if !v["last_sample"].is_null() {
            // keep the most recent one as the "last" sample
            if self.samples.len() >= 8 {
                self.samples.pop();
            }
            if self.samples.len() >= 6 {
                self.samples.push(v["last_sample"].clone());
            }
        }
        if let Some(c) = v["counters"].as_object() {
            for (k, n) in c {
                *self.counters.entry(k.clone()).or_insert(0) += n.as_u64().unwrap_or(0);
            }
        }
        if let Some(c) = v["maxima"].as_object() {
            for (k, n) in c {
                let e = self.maxima.entry(k.clone()).or_insert(0);
                *e = (*e).max(n.as_u64().unwrap_or(0));
            }
        }
        self.blocks_done += 1;
    }

    fn add_sets(&mut self, v: &Value) {
        if let Some(o) = v["sets"].as_object() {
            for (k, path) in o {
                if let Some(p) = path.as_str() {
                    if let Ok(bytes) = std::fs::read(p) {
                        let dst = self.sets.entry(k.clone()).or_default();
                        for ch in bytes.chunks_exact(8) {
                            let mut a = [0u8; 8];
                            a.copy_from_slice(ch);
                            dst.insert(u64::from_le_bytes(a));
                        }
                    }
                    let _ = std::fs::remove_file(p);
                }
            }
        }
    }
}

/// Re-run one block case by case in fresh processes to pinpoint inputs that kill or stall a worker.
fn step_block(prop: &'static str, tier: Tier, seed: u64, s: usize, b: u64) -> SteppedBlock {
    let mut out = SteppedBlock {
        evals: 0,
        done: None,
        fails: Vec::new(),
        incidents: Vec::new(),
        complete: false,
        sets: Vec::new(),
    };
    let mut from: u64 = 0;
    loop {
        let mut child = match Command::new(exe())
            .args(["worker", prop, tier.name(), &seed.to_string()])
            .stdin(Stdio::piped())
            .stdout(Stdio::piped())
            .stderr(Stdio::null())
            .spawn()
        {
            Ok(c) => c,
            Err(_) => return out,
        };
        {
            let mut si = child.stdin.take().unwrap();
            let _ = writeln!(si, "STEP {} {} {}", s, b, from);
            let _ = writeln!(si, "QUIT");
            let _ = si.flush();
        }
        let stdout = child.stdout.take().unwrap();
        let (tx, rx) = channel::<Option<String>>();
        std::thread::spawn(move || {
            let r = BufReader::new(stdout);
            for line in r.lines() {
                match line {
                    Ok(l) => {
                        if tx.send(Some(l)).is_err() {
                            return;
                        }
                    }
                    Err(_) => break,
                }
            }
            let _ = tx.send(None);
        });
        let mut last_case: Option<(u64, Value)> = None;
        let mut finished = false;
        let mut hung = false;
        loop {
            match rx.recv_timeout(Duration::from_secs(STEP_CASE_TIMEOUT_S)) {
                Ok(Some(l)) => {
                    let v: Value = match serde_json::from_str(&l) {
                        Ok(v) => v,
                        Err(_) => continue,
                    };
                    match v["t"].as_str() {
                        Some("case") => {
                            out.evals += 1;
                            last_case = Some((v["i"].as_u64().unwrap_or(0), v["case"].clone()));
                        }
                        Some("fail") => out.fails.push(Failure::from_json(&v)),
                        Some("done") => {
                            out.done = Some(v);
                            finished = true;
                        }
                        Some("bye") => out.sets.push(v),
                        _ => {}
                    }
                }
                Ok(None) => break,
                Err(RecvTimeoutError::Timeout) => {
                    hung = true;
                    break;
                }
                Err(RecvTimeoutError::Disconnected) => break,
            }
        }
        if hung {
            let _ = child.kill();
        }
        let status = child.wait().ok();
        if finished {
            out.complete = true;
            return out;
        }
        // the worker died or stalled on `last_case`
        let (i, case) = match last_case {
            Some(x) => x,
            None => {
                // died before the first case: nothing to attribute
                out.incidents.push(Failure {
                    rule: "no_crash".into(),
                    witness: format!("<worker died before the first case of block {} of space {}>", b, s),
                    locus: format!("{:?}", status),
                    detail: "worker process ended before announcing a case".into(),
                    case: Value::Null,
                });
                return out;
            }
        };
        let witness = case_witness(&case);
        if hung {
            // confirm with a longer deadline before calling it a hang
            match replay_case(prop, tier, seed, s, &case, HANG_CONFIRM_TIMEOUT_S) {
                ReplayOutcome::Finished(v) => {
                    if let Some(fs) = v["fails"].as_array() {
                        for f in fs {
                            out.fails.push(Failure::from_json(f));
                        }
                    }
                }
                ReplayOutcome::TimedOut => out.incidents.push(Failure {
                    rule: "no_hang".into(),
                    witness,
                    locus: "worker stalled".into(),
                    detail: format!(
                        "no result after {} s (confirmed by a second run with a {} s deadline)",
                        STEP_CASE_TIMEOUT_S, HANG_CONFIRM_TIMEOUT_S
                    ),
                    case,
                }),
                ReplayOutcome::Died(st) => out.incidents.push(Failure {
                    rule: "no_crash".into(),
                    witness,
                    locus: st,
                    detail: "worker process died (stack overflow, abort or kill by resource limit)".into(),
                    case,
                }),
            }
        } else {
            out.incidents.push(Failure {
                rule: "no_crash".into(),
                witness,
                locus: format!("{}", status.map(|s| s.to_string()).unwrap_or_default()),
                detail: "worker process died (stack overflow, abort or kill by resource limit)".into(),
                case,
            });
        }
        from = i + 1;
        if out.incidents.len() >= MAX_INCIDENTS_PER_BLOCK {
            return out;
        }
    }
}

/// Run `oq3verif derive-probe` with a deadline between probes; returns the probe on which it
/// crashed or stalled, if any.
fn watched_derivation() -> Option<String> {
    let mut child = Command::new(exe()).arg("derive-probe").stdin(Stdio::null()).stdout(Stdio::piped()).stderr(Stdio::null()).spawn().ok()?;
    let stdout = child.stdout.take()?;
    let (tx, rx) = channel::<Option<String>>();
    std::thread::spawn(move || {
        for line in BufReader::new(stdout).lines() {
            match line {
                Ok(l) => {
                    if tx.send(Some(l)).is_err() {
                        return;
                    }
                }
                Err(_) => break,
            }
        }
        let _ = tx.send(None);
    });
    let mut last: Option<String> = None;
    let mut done = false;
    loop {
        match rx.recv_timeout(Duration::from_secs(20)) {
            Ok(Some(l)) => {
                if let Some(p) = l.strip_prefix("PROBE ") {
                    last = serde_json::from_str::<String>(p).ok();
                } else if l == "DONE" {
                    done = true;
                }
            }
            Ok(None) => break,
            Err(_) => {
                let _ = child.kill();
                break;
            }
        }
    }
    let _ = child.wait();
    if done {
        None
    } else {
        last
    }
}

fn case_witness(case: &Value) -> String {
    if let Some(t) = case["text"].as_str() {
        return t.to_string();
    }
    if let Some(w) = case["witness"].as_str() {
        return w.to_string();
    }
    case.to_string()
}

enum ReplayOutcome {
    Finished(Value),
    TimedOut,
    Died(String),
}

fn replay_case(prop: &str, tier: Tier, seed: u64, s: usize, case: &Value, timeout_s: u64) -> ReplayOutcome {
    let mut child = match Command::new(exe())
        .args(["replay-case", prop, tier.name(), &seed.to_string(), &s.to_string()])
        .stdin(Stdio::piped())
        .stdout(Stdio::piped())
        .stderr(Stdio::null())
        .spawn()
    {
        Ok(c) => c,
        Err(e) => return ReplayOutcome::Died(e.to_string()),
    };
    {
        let mut si = child.stdin.take().unwrap();
        let _ = writeln!(si, "{}", case);
    }
    let stdout = child.stdout.take().unwrap();
    let (tx, rx) = channel::<Option<String>>();
    std::thread::spawn(move || {
        let r = BufReader::new(stdout);
        let mut last = None;
        for l in r.lines().map_while(Result::ok) {
            last = Some(l);
        }
        let _ = tx.send(last);
    });
    match rx.recv_timeout(Duration::from_secs(timeout_s)) {
        Ok(Some(l)) => {
            let _ = child.wait();
            match serde_json::from_str::<Value>(&l) {
                Ok(v) => ReplayOutcome::Finished(v),
                Err(_) => ReplayOutcome::Died("garbled replay output".into()),
            }
        }
        Ok(None) => {
            let st = child.wait().map(|s| s.to_string()).unwrap_or_default();
            ReplayOutcome::Died(st)
        }
        Err(_) => {
            let _ = child.kill();
            let _ = child.wait();
            ReplayOutcome::TimedOut
        }
    }
}

/// Run `oq3verif replay <file>` with a deadline; returns (exit code or -1, stdout).
fn run_replay_file(path: &str, timeout_s: u64) -> (i32, String) {
    let mut child = match Command::new(exe())
        .args(["replay", path])
        .stdin(Stdio::null())
        .stdout(Stdio::piped())
        .stderr(Stdio::null())
        .spawn()
    {
        Ok(c) => c,
        Err(_) => return (-2, String::new()),
    };
    let stdout = child.stdout.take().unwrap();
    let (tx, rx) = channel::<String>();
    std::thread::spawn(move || {
        let mut s = String::new();
        let _ = std::io::Read::read_to_string(&mut BufReader::new(stdout), &mut s);
        let _ = tx.send(s);
    });
    match rx.recv_timeout(Duration::from_secs(timeout_s)) {
        Ok(s) => {
            let code = child.wait().ok().and_then(|s| s.code()).unwrap_or(-1);
            (code, s)
        }
        Err(_) => {
            let _ = child.kill();
            let _ = child.wait();
            (-9, "TIMEOUT".into())
        }
    }
}

pub fn run(prop: &'static str, tier: Tier, seed: u64) -> i32 {
    let t0 = Instant::now();
    let findings = match Findings::load() {
        Ok(f) => f,
        Err(e) => {
            eprintln!("machinery error: {}", e);
            return 2;
        }
    };
    let meta = match props::meta(prop) {
        Some(m) => m,
        None => {
            eprintln!("machinery error: unknown property {}", prop);
            return 2;
        }
    };
    // The derivation of the token alphabet runs the subject in this very process. A panic is
    // caught there, but a hang or an abort would take the driver with it: the derivation is
    // therefore tried first in a watched subprocess that announces every probe; if that dies
    // or stalls, the last probe is handed to this process and to the workers as the witness.
    if std::env::var(crate::space::etok::WITNESS_ENV).is_err() {
        if let Some(w) = watched_derivation() {
            std::env::set_var(crate::space::etok::WITNESS_ENV, w);
        }
    }
    // the self-checks and the derivation of the token alphabet run the subject: its panics are
    // caught there (quietly) and become witnesses; the driver's own panics stay loud
    install_panic_hook();
    // safety net: nothing below may keep the driver busy for long; if the subject hangs inside
    // the construction of the spaces, give up as a machinery error instead of hanging forever
    let constructed = std::sync::Arc::new(std::sync::atomic::AtomicBool::new(false));
    {
        let c = constructed.clone();
        std::thread::spawn(move || {
            std::thread::sleep(Duration::from_secs(600));
            if !c.load(std::sync::atomic::Ordering::Relaxed) {
                eprintln!("machinery error: the construction of the spaces did not finish within 600 s (the subject hangs on an input used to build them)");
                std::process::exit(2);
            }
        });
    }
    let self_check = props::self_check(prop);
    let spaces = props::spaces(prop, tier, seed);
    constructed.store(true, std::sync::atomic::Ordering::Relaxed);
    let _ = std::panic::take_hook();
    if let Err(e) = self_check {
        eprintln!("machinery error: self-check failed: {}", e);
        return 2;
    }
    if spaces.is_empty() {
        eprintln!("machinery error: property {} has no spaces for tier {}", prop, tier.name());
        return 2;
    }
    let mut jobs: VecDeque<(usize, u64)> = VecDeque::new();
    for (si, sp) in spaces.iter().enumerate() {
        for b in 0..sp.num_blocks() {
            jobs.push_back((si, b));
        }
    }
    let total_blocks = jobs.len() as u64;
    let njobs: usize = std::env::var("VERIF_JOBS")
        .ok()
        .and_then(|s| s.parse().ok())
        .unwrap_or_else(|| std::thread::available_parallelism().map(|n| n.get()).unwrap_or(8));
    let nworkers = njobs.min(jobs.len()).max(1);
    let wall_cap_s: u64 = std::env::var("VERIF_WALL_CAP_S")
        .ok()
        .and_then(|s| s.parse().ok())
        .unwrap_or(if tier.is_thorough() { 4 * 3600 } else { 600 });

    let (tx, rx) = channel::<Msg>();
    let mut workers: Vec<Worker> = (0..nworkers).map(|i| spawn_worker(prop, tier, seed, i, &tx)).collect();
    let mut agg = Agg::default();
    let mut stepping = 0usize;
    let mut machinery_errors: Vec<String> = Vec::new();
    let mut capped = false;
    // blocks of a space in which stepping confirmed a crash or a hang; after
    // MAX_DEAD_BLOCKS_PER_SPACE of them the rest of the space is skipped (a mere stall under
    // load that stepping does not confirm costs nothing but time)
    let mut dead_blocks: HashMap<usize, usize> = HashMap::new();
    let mut condemned: HashSet<usize> = HashSet::new();

    let assign = |w: &mut Worker, jobs: &mut VecDeque<(usize, u64)>| {
        if !w.alive || w.busy.is_some() || w.quitting {
            return;
        }
        if let Some((s, b)) = jobs.pop_front() {
            if let Some(si) = w.stdin.as_mut() {
                if writeln!(si, "BLOCK {} {}", s, b).and_then(|_| si.flush()).is_ok() {
                    w.busy = Some((s, b, Instant::now()));
                    return;
                }
            }
            // could not talk to the worker: put the job back
            jobs.push_front((s, b));
            w.alive = false;
        } else if let Some(si) = w.stdin.as_mut() {
            let _ = writeln!(si, "QUIT");
            let _ = si.flush();
            w.quitting = true;
        }
    };
    for w in workers.iter_mut() {
        assign(w, &mut jobs);
    }

    loop {
        let busy = workers.iter().filter(|w| w.alive && (w.busy.is_some() || w.quitting)).count();
        if busy == 0 && stepping == 0 && jobs.is_empty() {
            break;
        }
        if busy == 0 && stepping == 0 && !jobs.is_empty() {
            // all workers gone but jobs remain: start a new one
            let id = workers.len();
            workers.push(spawn_worker(prop, tier, seed, id, &tx));
            let w = workers.last_mut().unwrap();
            assign(w, &mut jobs);
            continue;
        }
        match rx.recv_timeout(Duration::from_millis(500)) {
            Ok(Msg::Line(id, l)) => {
                let v: Value = match serde_json::from_str(&l) {
                    Ok(v) => v,
                    Err(_) => continue,
                };
                match v["t"].as_str() {
                    Some("done") => {
                        agg.add_done(&v, None);
                        workers[id].busy = None;
                        assign(&mut workers[id], &mut jobs);
                    }
                    Some("bye") => {
                        agg.add_sets(&v);
                    }
                    Some("error") => {
                        machinery_errors.push(v["msg"].as_str().unwrap_or("worker error").to_string());
                    }
                    _ => {}
                }
            }
            Ok(Msg::Eof(id)) => {
                let w = &mut workers[id];
                w.alive = false;
                let _ = w.child.wait();
                if let Some((s, b, _)) = w.busy.take() {
                    // died in the middle of a block: pinpoint by stepping
                    if condemned.contains(&s) {
                        // the space was given up after confirmed crashes or hangs: blocks that
                        // were still running are not pinpointed any more
                        agg.incomplete_blocks.push((s, b));
                        if !jobs.is_empty() {
                            let nid = workers.len();
                            workers.push(spawn_worker(prop, tier, seed, nid, &tx));
                            let nw = workers.last_mut().unwrap();
                            assign(nw, &mut jobs);
                        }
                        continue;
                    }
                    stepping += 1;
                    let tx2 = tx.clone();
                    std::thread::spawn(move || {
                        let r = step_block(prop, tier, seed, s, b);
                        let _ = tx2.send(Msg::Stepped(s, b, r));
                    });
                    // replace the worker
                    if !jobs.is_empty() {
                        let nid = workers.len();
                        workers.push(spawn_worker(prop, tier, seed, nid, &tx));
                        let nw = workers.last_mut().unwrap();
                        assign(nw, &mut jobs);
                    }
                }
            }
            Ok(Msg::Stepped(s, b, r)) => {
                stepping -= 1;
                if !r.incidents.is_empty() {
                    // crashes or hangs confirmed in six blocks overall: the run is a failure,
                    // nothing more is learnt by grinding through every space
                    let total_dead: usize = dead_blocks.values().sum::<usize>() + 1;
                    if total_dead >= 6 && !jobs.is_empty() {
                        capped = true;
                        agg.incomplete_blocks.extend(jobs.iter().cloned());
                        for j in jobs.iter() {
                            condemned.insert(j.0);
                        }
                        jobs.clear();
                    }
                    let dead = dead_blocks.entry(s).or_insert(0usize);
                    *dead += 1;
                    if *dead >= MAX_DEAD_BLOCKS_PER_SPACE && condemned.insert(s) {
                        let skipped: Vec<(usize, u64)> = jobs.iter().filter(|j| j.0 == s).cloned().collect();
                        jobs.retain(|j| j.0 != s);
                        if !skipped.is_empty() {
                            capped = true;
                            agg.incomplete_blocks.extend(skipped);
                        }
                    }
                }
                if let Some(d) = &r.done {
                    agg.add_done(d, Some(r.evals));
                } else {
                    agg.evals += r.evals;
                    *agg.per_space_evals.entry(s).or_insert(0) += r.evals;
                }
                for v in &r.sets {
                    agg.add_sets(v);
                }
                for f in r.fails.into_iter().chain(r.incidents.into_iter()) {
                    if let Some(idx) = findings.matching(prop, &f) {
                        let e = agg.known.entry(idx).or_insert((0, f.witness.clone()));
                        e.0 += 1;
                    } else {
                        agg.fail_total += 1;
                        agg.fails.push((s, b, f));
                    }
                }
                if !r.complete {
                    agg.incomplete_blocks.push((s, b));
                }
            }
            Err(RecvTimeoutError::Timeout) => {}
            Err(RecvTimeoutError::Disconnected) => break,
        }
        // stall detection
        for id in 0..workers.len() {
            let stalled = match workers[id].busy {
                Some((s, _, since)) => since.elapsed().as_secs() > spaces[s].block_timeout_s(),
                None => false,
            };
            if stalled && workers[id].alive {
                let _ = workers[id].child.kill();
                // the reader thread will deliver Eof, which triggers the stepping
            }
        }
        if t0.elapsed().as_secs() > wall_cap_s && !jobs.is_empty() {
            capped = true;
            jobs.clear();
        }
    }
    for w in workers.iter_mut() {
        if w.alive {
            drop(w.stdin.take());
            let _ = w.child.wait();
        }
    }
    // drain late messages (bye lines of workers that finished last)
    while let Ok(m) = rx.recv_timeout(Duration::from_millis(50)) {
        if let Msg::Line(_, l) = m {
            if let Ok(v) = serde_json::from_str::<Value>(&l) {
                if v["t"].as_str() == Some("bye") {
                    agg.add_sets(&v);
                }
            }
        }
    }

    if !machinery_errors.is_empty() {
        for e in &machinery_errors {
            eprintln!("machinery error: {}", e);
        }
        return 2;
    }

    // ---------------- verdict ----------------
    let mut exit = 0;
    // known findings
    let mut known_json = Vec::new();
    for (idx, f) in findings.open.iter().enumerate() {
        if f.property != prop {
            continue;
        }
        match agg.known.get(&idx) {
            Some((n, w)) => {
                out!("KNOWN-FINDING: property={} {} ({} cases, e.g. `{}`)", prop, f.what, n, show(w));
                known_json.push(json!({"what": f.what, "rule": f.rule, "hits": n, "first_witness": w}));
            }
            None => {
                out!("NOTE: property={} listed finding not hit in this run: {}", prop, f.what);
                known_json.push(json!({"what": f.what, "rule": f.rule, "hits": 0}));
            }
        }
    }
    // new failures: smallest first (space order, block order, then witness length)
    agg.fails.sort_by(|a, b| {
        (a.0, a.2.witness.len(), a.1, &a.2.witness).cmp(&(b.0, b.2.witness.len(), b.1, &b.2.witness))
    });
    let mut reported = Vec::new();
    let mut seen_keys: HashSet<String> = HashSet::new();
    if std::env::var("VERIF_TRIAGE").is_ok() {
        // developer aid (not used by registered commands): group the collected failures
        let mut groups: BTreeMap<String, (u64, String, String)> = BTreeMap::new();
        for (_, _, f) in agg.fails.iter() {
            let e = groups
                .entry(format!("{} | {}", f.rule, f.locus))
                .or_insert((0, f.witness.clone(), f.detail.clone()));
            e.0 += 1;
        }
        for (k, (n, w, d)) in &groups {
            out!("TRIAGE {:>7} {}  e.g. `{}`  {}", n, k, show(w), show(&d.chars().take(160).collect::<String>()));
        }
        out!("TRIAGE total uncovered {} (collected {})", agg.fail_total, agg.fails.len());
        return 1;
    }
    let replay_dir = format!("{}/replays", crate::verif_root());
    let _ = std::fs::create_dir_all(&replay_dir);
    for (s, _b, f) in agg.fails.iter() {
        // one report per (rule, locus) class, smallest witness first
        let key = format!("{}|{}", f.rule, f.locus);
        if !seen_keys.insert(key) {
            continue;
        }
        if reported.len() >= MAX_REPORTED {
            break;
        }
        let body = json!({
            "property": prop, "tier": tier.name(), "seed": seed,
            "space_index": s, "space_name": spaces[*s].name(),
            "failure": f.to_json(),
        });
        let h = fnv_str(&body.to_string());
        let path = format!("{}/{}-{:016x}.json", replay_dir, prop, h);
        if std::fs::write(&path, serde_json::to_string_pretty(&body).unwrap()).is_err() {
            eprintln!("machinery error: cannot write {}", path);
            return 2;
        }
        // replay twice; an alarm is only raised on a reproducible observation
        let replay_deadline = if f.rule == "no_hang" { HANG_REPLAY_TIMEOUT_S } else { 180 };
        let r1 = run_replay_file(&path, replay_deadline);
        let r2 = run_replay_file(&path, replay_deadline);
        let crashy = f.rule == "no_crash" || f.rule == "no_hang";
        let reproduced = |r: &(i32, String)| if crashy { r.0 != 0 } else { r.0 == 1 };
        // both replays must reach the same verdict; their details may differ only when both
        // reproduce the failure (a subject whose diagnostics come in a varying order is itself
        // the finding, not a defect of the harness)
        if r1 != r2 && !(reproduced(&r1) && reproduced(&r2)) {
            eprintln!(
                "machinery error: replay of {} is not deterministic ({} vs {})",
                path, r1.0, r2.0
            );
            return 2;
        }
        if !reproduced(&r1) {
            eprintln!(
                "machinery error: failure does not reproduce in isolation: {} (exit {}): {}",
                path, r1.0, r1.1.trim()
            );
            return 2;
        }
        out!("VIOLATION property={} replay={}", prop, path);
        out!("  rule={} locus={}", f.rule, f.locus);
        out!("  witness=`{}`", show(&f.witness));
        out!("  detail={}", f.detail);
        reported.push(json!({"rule": f.rule, "witness": f.witness, "locus": f.locus, "detail": f.detail, "replay": path}));
        exit = 1;
    }
    if agg.fail_total > 0 && exit == 0 {
        // failures were counted but none could be reported: treat as machinery error
        eprintln!("machinery error: {} failures counted but none collected", agg.fail_total);
        return 2;
    }

    // ---------------- evidence ----------------
    let distinct_nontrivial = agg.sets.get("nontrivial").map(|s| s.len() as u64).unwrap_or(0);
    let distinct_outcomes = agg.sets.get("outcomes").map(|s| s.len() as u64).unwrap_or(0);
    let exhaustive = !capped && agg.incomplete_blocks.is_empty() && spaces.iter().all(|s| s.exhaustive());
    let space_desc: Vec<Value> = spaces
        .iter()
        .enumerate()
        .map(|(i, s)| {
            json!({"name": s.name(), "blocks": s.num_blocks(), "evaluations": agg.per_space_evals.get(&i).copied().unwrap_or(0),
                   "exhaustive": s.exhaustive(), "describe": s.describe()})
        })
        .collect();
    let mut coverage = json!({
        "evaluations": agg.evals,
        "distinct_nontrivial": distinct_nontrivial,
        "nontrivial_cases": agg.nontrivial,
        "rule": meta.rule,
        "samples": agg.samples,
        "exhaustive": exhaustive,
        "distinct_outcomes": distinct_outcomes,
        "spaces": space_desc,
        "blocks": total_blocks,
        "blocks_done": agg.blocks_done,
        "capped_by_wall_clock": capped,
        "incomplete_blocks": agg.incomplete_blocks.iter().map(|(s, b)| json!([s, b])).collect::<Vec<_>>(),
        "counters": agg.counters,
        "maxima": agg.maxima,
        "known_findings": known_json,
        "new_violations": reported,
        "uncovered_failures_total": agg.fail_total,
        "distinct_counts": agg.sets.iter().map(|(k, v)| (k.clone(), json!(v.len()))).collect::<BTreeMap<_, _>>(),
        "note": "distinct_* are sizes of hash sets capped per worker, i.e. lower bounds; cases of a space are distinct by construction",
    });
    if meta.level == "model_checking" {
        coverage["states"] = json!(agg.sets.get("states").map(|s| s.len()).unwrap_or(0));
        coverage["transitions"] = json!(agg.sets.get("transitions").map(|s| s.len()).unwrap_or(0));
        coverage["traces_validated_against_impl"] = json!(agg.counters.get("traces").copied().unwrap_or(agg.evals));
    }
    let evidence = json!({
        "property_id": prop,
        "tier": tier.name(),
        "seed": seed,
        "level": meta.level,
        "coverage": coverage,
        "assumptions": meta.assumptions,
        "wall_s": t0.elapsed().as_secs_f64(),
        "violations": reported_len(&coverage),
    });
    let epath = format!("{}/evidence/{}.json", crate::verif_root(), prop);
    let _ = std::fs::create_dir_all(format!("{}/evidence", crate::verif_root()));
    if std::fs::write(&epath, serde_json::to_string_pretty(&evidence).unwrap()).is_err() {
        eprintln!("machinery error: cannot write {}", epath);
        return 2;
    }
    out!(
        "{} {}: {} cases in {} blocks, {} non-trivial ({} distinct), {} distinct outcomes, {} known-finding hits, {} new failures, {:.1} s{}",
        prop,
        tier.name(),
        agg.evals,
        agg.blocks_done,
        agg.nontrivial,
        distinct_nontrivial,
        distinct_outcomes,
        agg.known.values().map(|x| x.0).sum::<u64>(),
        agg.fail_total,
        t0.elapsed().as_secs_f64(),
        if exhaustive { "" } else { " [NOT exhaustive]" }
    );
    if exit == 0 {
        // vacuity guard: a run that explored nothing interesting is a machinery error, not a pass
        if agg.evals == 0 || distinct_nontrivial < 2 || distinct_outcomes < 2 {
            eprintln!(
                "machinery error: vacuous exploration (evaluations {}, distinct non-trivial {}, distinct outcomes {})",
                agg.evals, distinct_nontrivial, distinct_outcomes
            );
            return 2;
        }
    }
    exit
}

fn reported_len(cov: &Value) -> u64 {
    cov["new_violations"].as_array().map(|a| a.len() as u64).unwrap_or(0)
}

/// `oq3verif replay <file>`: re-run one recorded case against the current tree.
pub fn replay_file(path: &str) -> i32 {
    let text = match std::fs::read_to_string(path) {
        Ok(t) => t,
        Err(e) => {
            eprintln!("cannot read {}: {}", path, e);
            return 2;
        }
    };
    let v: Value = match serde_json::from_str(&text) {
        Ok(v) => v,
        Err(e) => {
            eprintln!("cannot parse {}: {}", path, e);
            return 2;
        }
    };
    let prop = match props::intern(v["property"].as_str().unwrap_or("")) {
        Some(p) => p,
        None => return 2,
    };
    let tier = Tier::parse(v["tier"].as_str().unwrap_or("quick")).unwrap_or(Tier::Quick);
    let seed = v["seed"].as_u64().unwrap_or(0);
    let name = v["space_name"].as_str().unwrap_or("").to_string();
    let case = v["failure"]["case"].clone();
    let findings = match Findings::load() {
        Ok(f) => f,
        Err(_) => return 2,
    };
    let mut so = crate::worker::private_stdout();
    crate::worker::limit_address_space(12);
    install_panic_hook();
    let (fails, known) = crate::worker::on_big_stack(move || {
        let spaces = props::spaces(prop, tier, seed);
        let sp = spaces.iter().find(|s| s.name() == name);
        let mut ctx = Ctx::new(prop, &findings);
        match sp {
            Some(sp) => sp.replay(&case, &mut ctx),
            None => ctx.fail(Failure {
                rule: "replay".into(),
                witness: name.clone(),
                locus: String::new(),
                detail: "space not found".into(),
                case: Value::Null,
            }),
        }
        (ctx.failures.clone(), ctx.known_hits.values().map(|x| x.0).sum::<u64>())
    });
    if fails.is_empty() {
        let _ = writeln!(so, "REPLAY property={} verdict=PASS known_finding_hits={}", prop, known);
        return 0;
    }
    for f in &fails {
        let _ = writeln!(
            so,
            "REPLAY property={} verdict=FAIL rule={} locus={} detail={}",
            prop, f.rule, f.locus, show(&f.detail)
        );
    }
    let _ = writeln!(so, "VIOLATION property={} replay={}", prop, path);
    1
}
