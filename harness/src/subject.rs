//! Thin helpers around the subject's public API, shared by several oracles.

use crate::core::{catch, PanicInfo};
use oq3_parser::SyntaxKind;
use oq3_syntax::{ast, NodeOrToken, Parse, ParseOrErrors, SyntaxNode};

pub type P = Parse<ast::SourceFile>;
pub type PL = ParseOrErrors<ast::SourceFile>;

pub fn parse(text: &str) -> Result<P, PanicInfo> {
    catch(|| ast::SourceFile::parse(text))
}

pub fn parse_check_lex(text: &str) -> Result<PL, PanicInfo> {
    catch(|| ast::SourceFile::parse_check_lex(text))
}

/// Number of non-trivia tokens of the text as the parser sees them.
pub fn count_tokens(text: &str) -> Result<usize, PanicInfo> {
    catch(|| {
        let lexed = oq3_parser::LexedStr::new(text);
        (0..lexed.len()).filter(|i| !lexed.kind(*i).is_trivia()).count()
    })
}

/// Check that the tree rooted at `root` is lossless for `text`:
/// leaves spell the input, children tile their parent, the root spans [0, len).
pub fn check_lossless(root: &SyntaxNode, text: &str) -> Result<(), String> {
    if root.kind() != SyntaxKind::SOURCE_FILE {
        return Err(format!("root node has kind {:?}, not SOURCE_FILE", root.kind()));
    }
    let r = root.text_range();
    if usize::from(r.start()) != 0 || usize::from(r.end()) != text.len() {
        return Err(format!("root spans {:?} but the input has {} bytes", r, text.len()));
    }
    if root.parent().is_some() {
        return Err("root has a parent".into());
    }
    // leaves in document order
    let mut spelled = String::with_capacity(text.len());
    let mut pos = 0usize;
    for el in root.descendants_with_tokens() {
        match el {
            NodeOrToken::Token(t) => {
                let tr = t.text_range();
                if usize::from(tr.start()) != pos {
                    return Err(format!("token {:?} starts at {} but the previous leaf ended at {}", t.kind(), usize::from(tr.start()), pos));
                }
                if t.text().len() != usize::from(tr.len()) {
                    return Err(format!("token {:?} has text of {} bytes but a range of {}", t.kind(), t.text().len(), usize::from(tr.len())));
                }
                if t.text().is_empty() {
                    return Err(format!("empty token {:?} at {}", t.kind(), pos));
                }
                pos = usize::from(tr.end());
                spelled.push_str(t.text());
            }
            NodeOrToken::Node(n) => {
                // children tile the node
                let nr = n.text_range();
                let mut p = nr.start();
                let mut any = false;
                for c in n.children_with_tokens() {
                    any = true;
                    let cr = c.text_range();
                    if cr.start() != p {
                        return Err(format!("child {:?} of {:?} starts at {:?}, expected {:?} (gap or overlap)", c.kind(), n.kind(), cr.start(), p));
                    }
                    p = cr.end();
                }
                if p != nr.end() {
                    return Err(format!("children of {:?} end at {:?} but the node ends at {:?}", n.kind(), p, nr.end()));
                }
                if !any && !nr.is_empty() {
                    return Err(format!("node {:?} has no children but spans {:?}", n.kind(), nr));
                }
            }
        }
    }
    if spelled != text {
        return Err(format!("leaves spell {:?}, not the input", crate::core::show(&spelled)));
    }
    if root.text().to_string() != text {
        return Err("text() of the root differs from the input".into());
    }
    Ok(())
}

/// Does the tree contain an ERROR node or an ERROR token?
pub fn has_error_element(root: &SyntaxNode) -> bool {
    root.descendants_with_tokens().any(|e| e.kind() == SyntaxKind::ERROR)
}

/// A hash of the tree shape (kinds and token texts) used to count distinct outcomes.
pub fn tree_hash(root: &SyntaxNode) -> u64 {
    let mut h = 0u64;
    for ev in root.preorder_with_tokens() {
        match ev {
            oq3_syntax::WalkEvent::Enter(e) => {
                let k: u16 = e.kind().into();
                h = crate::core::fnv_mix(h, k as u64);
            }
            oq3_syntax::WalkEvent::Leave(_) => h = crate::core::fnv_mix(h, 0xfffe),
        }
    }
    h
}

/// Number of statement-level nodes that are not ERROR (used for the non-triviality rules).
pub fn count_statements(root: &SyntaxNode) -> usize {
    use oq3_syntax::AstNode;
    match ast::SourceFile::cast(root.clone()) {
        Some(sf) => sf.statements().count(),
        None => 0,
    }
}
