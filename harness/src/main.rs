//! oq3verif — bounded exhaustive exploration of Qiskit/openqasm3_parser (see /verif/DESIGN.md).
//!
//! Usage:
//!   oq3verif run <ID> <quick|thorough>      run a check (driver)
//!   oq3verif replay <file>                  re-run one recorded case
//!   oq3verif list                           list property ids
//!   oq3verif worker ... / replay-case ...   internal

mod core;
mod driver;
mod findings;
mod model;
mod props;
mod space;
mod subject;
mod worker;

use crate::core::Tier;

pub fn verif_root() -> String {
    std::env::var("VERIF_ROOT").unwrap_or_else(|_| "/verif".to_string())
}

fn seed() -> u64 {
    std::env::var("VERIF_SEED").ok().and_then(|s| s.parse().ok()).unwrap_or(0)
}

fn main() {
    // QASM3_PATH of the caller must not influence any check.
    std::env::remove_var("QASM3_PATH");
    let args: Vec<String> = std::env::args().collect();
    let code = match args.get(1).map(|s| s.as_str()) {
        Some("run") if args.len() >= 4 => {
            match (props::intern(&args[2]), Tier::parse(&args[3])) {
                (Some(p), Some(t)) => driver::run(p, t, seed()),
                _ => {
                    eprintln!("usage: oq3verif run <ID> <quick|thorough>");
                    2
                }
            }
        }
        Some("worker") if args.len() >= 5 => {
            match (props::intern(&args[2]), Tier::parse(&args[3]), args[4].parse::<u64>()) {
                (Some(p), Some(t), Ok(seed)) => worker::worker_main(p, t, seed),
                _ => 2,
            }
        }
        Some("replay-case") if args.len() >= 6 => {
            match (
                props::intern(&args[2]),
                Tier::parse(&args[3]),
                args[4].parse::<u64>(),
                args[5].parse::<usize>(),
            ) {
                (Some(p), Some(t), Ok(seed), Ok(s)) => worker::replay_case_main(p, t, seed, s),
                _ => 2,
            }
        }
        Some("derive-probe") => {
            // the alphabet derivation and the self-checks, announcing every probe (see driver)
            space::etok::TRACE_PROBES.store(true, std::sync::atomic::Ordering::Relaxed);
            core::install_panic_hook();
            let _ = space::etok::derive(true);
            let _ = space::etok::derive(false);
            println!("DONE");
            0
        }
        Some("replay") if args.len() >= 3 => driver::replay_file(&args[2]),
        Some("list") => {
            for p in props::ALL {
                println!("{}", p);
            }
            0
        }
        Some("probe") => props::probe(&args[2..]),
        _ => {
            eprintln!("usage: oq3verif run <ID> <quick|thorough> | replay <file> | list");
            2
        }
    };
    std::process::exit(code);
}
