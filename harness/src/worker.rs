//! Worker process: executes blocks of a property's spaces on request of the driver.
//!
//! Protocol (driver -> worker on stdin, one command per line):
//!   BLOCK <space> <block>          run the block, answer with one `done` line
//!   STEP  <space> <block> <from>   same, but announce every case (`case` line) before running
//!                                  it, skip cases below <from>, report failures immediately
//!   QUIT                           write the distinct-hash sets, answer `bye`, exit
//! Worker -> driver: JSON lines on a private descriptor (the original stdout); descriptor 1 is
//! redirected to /dev/null so that nothing the subject prints can corrupt the protocol.

use crate::core::*;
use crate::findings::Findings;
use crate::props;
use serde_json::{json, Value};
use std::collections::{BTreeMap, HashSet};
use std::fs::File;
use std::io::{BufRead, Write};
use std::os::unix::io::FromRawFd;

pub const SET_CAP: usize = 1_500_000;

pub fn private_stdout() -> File {
    unsafe {
        let fd = libc::dup(1);
        let devnull = libc::open(b"/dev/null\0".as_ptr() as *const libc::c_char, libc::O_WRONLY);
        if devnull >= 0 {
            libc::dup2(devnull, 1);
            libc::close(devnull);
        }
        File::from_raw_fd(fd)
    }
}

pub fn limit_address_space(gib: u64) {
    unsafe {
        let lim = libc::rlimit {
            rlim_cur: gib << 30,
            rlim_max: gib << 30,
        };
        libc::setrlimit(libc::RLIMIT_AS, &lim);
        // no core dumps
        let z = libc::rlimit {
            rlim_cur: 0,
            rlim_max: 0,
        };
        libc::setrlimit(libc::RLIMIT_CORE, &z);
    }
}

pub fn on_big_stack<T: Send + 'static>(f: impl FnOnce() -> T + Send + 'static) -> T {
    std::thread::Builder::new()
        .stack_size(1 << 30)
        .spawn(f)
        .expect("spawn big-stack thread")
        .join()
        .expect("big-stack thread panicked")
}

pub fn block_result_json(s: usize, b: u64, ctx: &Ctx, step: bool) -> Value {
    let known: BTreeMap<String, Value> = ctx
        .known_hits
        .iter()
        .map(|(k, (n, w))| (k.to_string(), json!([n, w])))
        .collect();
    json!({
        "t": "done", "space": s, "block": b,
        "evals": ctx.evals, "nontrivial": ctx.nontrivial,
        "known": known,
        "fails": if step { Vec::new() } else { ctx.failures.iter().map(|f| f.to_json()).collect::<Vec<_>>() },
        "fail_total": if step { 0 } else { ctx.fail_total },
        "sample": ctx.sample, "last_sample": ctx.last_sample,
        "counters": ctx.counters, "maxima": ctx.maxima,
    })
}

pub fn worker_main(prop: &'static str, tier: Tier, seed: u64) -> i32 {
    let mut proto = private_stdout();
    limit_address_space(12);
    install_panic_hook();
    let findings = match Findings::load() {
        Ok(f) => f,
        Err(e) => {
            let _ = writeln!(proto, "{}", json!({"t":"error","msg":e}));
            return 2;
        }
    };
    let code = on_big_stack(move || {
        let spaces = props::spaces(prop, tier, seed);
        let mut sets: BTreeMap<String, HashSet<u64>> = BTreeMap::new();
        let stdin = std::io::stdin();
        for line in stdin.lock().lines() {
            let line = match line {
                Ok(l) => l,
                Err(_) => break,
            };
            let parts: Vec<&str> = line.split_whitespace().collect();
            if parts.is_empty() {
                continue;
            }
            match parts[0] {
                "BLOCK" | "STEP" => {
                    let step = parts[0] == "STEP";
                    let s: usize = parts[1].parse().unwrap();
                    let b: u64 = parts[2].parse().unwrap();
                    let mut ctx = Ctx::new(prop, &findings);
                    if step {
                        ctx.step = Some(parts[3].parse().unwrap());
                        ctx.emit_fails = true;
                    }
                    // the context gets its own handle of the protocol writer for `case`/`fail` lines
                    ctx.proto = Some(Box::new(proto.try_clone().expect("clone proto")));
                    spaces[s].run_block(b, &mut ctx);
                    ctx.proto = None;
                    for (k, set) in ctx.sets.iter() {
                        let dst = sets.entry(k.clone()).or_default();
                        for h in set {
                            if dst.len() >= SET_CAP {
                                break;
                            }
                            dst.insert(*h);
                        }
                    }
                    let _ = writeln!(proto, "{}", block_result_json(s, b, &ctx, step));
                    let _ = proto.flush();
                }
                "QUIT" => break,
                _ => {}
            }
        }
        // write the sets to side files
        let dir = format!("{}/.work/sets", crate::verif_root());
        let _ = std::fs::create_dir_all(&dir);
        let mut files = BTreeMap::new();
        for (k, set) in sets.iter() {
            let path = format!("{}/{}-{}.bin", dir, std::process::id(), k);
            let mut bytes = Vec::with_capacity(set.len() * 8);
            for h in set {
                bytes.extend_from_slice(&h.to_le_bytes());
            }
            if std::fs::write(&path, bytes).is_ok() {
                files.insert(k.clone(), path);
            }
        }
        let _ = writeln!(proto, "{}", json!({"t":"bye","sets":files}));
        let _ = proto.flush();
        0
    });
    code
}

/// Run the oracle of one space on one case given on stdin (used to confirm hangs).
pub fn replay_case_main(prop: &'static str, tier: Tier, seed: u64, space: usize) -> i32 {
    let mut proto = private_stdout();
    limit_address_space(12);
    install_panic_hook();
    let findings = match Findings::load() {
        Ok(f) => f,
        Err(_) => return 2,
    };
    let mut input = String::new();
    let _ = std::io::stdin().lock().read_line(&mut input);
    let case: Value = match serde_json::from_str(&input) {
        Ok(v) => v,
        Err(_) => return 2,
    };
    let out = on_big_stack(move || {
        let spaces = props::spaces(prop, tier, seed);
        let mut ctx = Ctx::new(prop, &findings);
        spaces[space].replay(&case, &mut ctx);
        block_result_json(space, 0, &ctx, false)
    });
    let _ = writeln!(proto, "{}", out);
    0
}
