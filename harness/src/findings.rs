//! Known findings: genuine defects of the subject that are recorded rather than repaired.
//!
//! `/verif/known_findings.jsonl` is committed and is never written by a check.  A failure is
//! *covered* iff some `open` entry of its property has the same `rule`, its `witness_re`
//! matches the failure's witness and (if present) its `locus_re` matches the failure's locus.
//! Entries with status `fixed` are documentation only and are never consulted, so a
//! regression of a repaired defect is reported as a violation.

use crate::core::Failure;
use fancy_regex::Regex;
use serde_json::Value;

pub struct Finding {
    pub property: String,
    pub rule: String,
    pub witness_re: Regex,
    pub locus_re: Option<Regex>,
    pub what: String,
    pub example: String,
}

#[derive(Default)]
pub struct Findings {
    pub open: Vec<Finding>,
}

pub fn findings_path() -> String {
    format!("{}/known_findings.jsonl", crate::verif_root())
}

impl Findings {
    pub fn load() -> Result<Findings, String> {
        let path = findings_path();
        let text = match std::fs::read_to_string(&path) {
            Ok(t) => t,
            Err(_) => return Ok(Findings::default()),
        };
        let mut open = Vec::new();
        for (n, line) in text.lines().enumerate() {
            let line = line.trim();
            // `fixed: property=<id> <commit> <what failed>` lines document repaired defects;
            // they suppress nothing.
            if line.is_empty() || line.starts_with("//") || line.starts_with('#') || line.starts_with("fixed:") {
                continue;
            }
            let v: Value = serde_json::from_str(line)
                .map_err(|e| format!("{}:{}: {}", path, n + 1, e))?;
            let status = v["status"].as_str().unwrap_or("");
            if status != "open" {
                continue;
            }
            let get = |k: &str| -> Result<String, String> {
                v[k].as_str()
                    .map(|s| s.to_string())
                    .ok_or_else(|| format!("{}:{}: missing field {}", path, n + 1, k))
            };
            let witness_re = Regex::new(&get("witness_re")?)
                .map_err(|e| format!("{}:{}: witness_re: {}", path, n + 1, e))?;
            let locus_re = match v["locus_re"].as_str() {
                Some(s) => Some(
                    Regex::new(s).map_err(|e| format!("{}:{}: locus_re: {}", path, n + 1, e))?,
                ),
                None => None,
            };
            open.push(Finding {
                property: get("property")?,
                rule: get("rule")?,
                witness_re,
                locus_re,
                what: get("what")?,
                example: v["example"].as_str().unwrap_or("").to_string(),
            });
        }
        Ok(Findings { open })
    }

    /// Index of the first open entry covering the failure, if any.
    pub fn matching(&self, prop: &str, f: &Failure) -> Option<usize> {
        for (i, e) in self.open.iter().enumerate() {
            if e.property != prop || e.rule != f.rule {
                continue;
            }
            if !e.witness_re.is_match(&f.witness).unwrap_or(false) {
                continue;
            }
            if let Some(l) = &e.locus_re {
                if !l.is_match(&f.locus).unwrap_or(false) {
                    continue;
                }
            }
            return Some(i);
        }
        None
    }
}
