//! C20 — type promotion is a join on the numeric tower and never narrows.
//!
//! Exhaustive over a finite abstraction of `Type`: all 27 constructors x widths
//! {none, 1, 8, 32, 64, 128, 2^32-1} x const flags x array shapes; all ordered pairs and all
//! triples.  The reference (R-tower) is the order of the statement written as data.

use crate::core::*;
use crate::props::Meta;
use oq3_semantics::asg::{implicit_cast_type, ArithOp};
use oq3_semantics::types::{self, ArrayDims, IsConst, SubroutineDef, Type};
use serde_json::{json, Value};

pub fn meta() -> Meta {
    Meta {
        level: "exploration",
        rule: "all ordered pairs and all triples of a finite abstraction of Type (27 constructors x widths {none,1,8,32,64,128,2^32-1} x const flags x array shapes of 1-3 dimensions), each enumerated once; a pair is non-trivial when its common type exists and differs from both operands; outcomes = distinct result types",
        assumptions: vec![
            "widths outside the seven representatives and array lengths other than 1 and 4 are not covered",
            "the order of the statement: int, uint < float < complex; widths ordered numerically with 'none' on top; const only if both",
        ],
    }
}

pub fn type_table() -> Vec<Type> {
    let widths: [Option<u32>; 7] = [None, Some(1), Some(8), Some(32), Some(64), Some(128), Some(u32::MAX)];
    let consts = [IsConst::False, IsConst::True];
    let dims = [
        ArrayDims::D1(1),
        ArrayDims::D1(4),
        ArrayDims::D2(1, 4),
        ArrayDims::D2(4, 4),
        ArrayDims::D3(1, 4, 1),
        ArrayDims::D3(4, 4, 4),
    ];
    let mut v = Vec::new();
    for c in &consts {
        v.push(Type::Bit(c.clone()));
        v.push(Type::Bool(c.clone()));
        v.push(Type::Duration(c.clone()));
        v.push(Type::Stretch(c.clone()));
        for w in &widths {
            v.push(Type::Int(*w, c.clone()));
            v.push(Type::UInt(*w, c.clone()));
            v.push(Type::Float(*w, c.clone()));
            v.push(Type::Angle(*w, c.clone()));
            v.push(Type::Complex(*w, c.clone()));
        }
        for d in &dims[..3] {
            v.push(Type::BitArray(d.clone(), c.clone()));
        }
    }
    v.push(Type::Qubit);
    v.push(Type::HardwareQubit);
    for d in &dims {
        v.push(Type::QubitArray(d.clone()));
    }
    for d in &dims[..2] {
        v.push(Type::IntArray(d.clone()));
        v.push(Type::UIntArray(d.clone()));
        v.push(Type::FloatArray(d.clone()));
        v.push(Type::AngleArray(d.clone()));
        v.push(Type::ComplexArray(d.clone()));
        v.push(Type::BoolArray(d.clone()));
        v.push(Type::DurationArray(d.clone()));
    }
    v.push(Type::Gate(0, 1));
    v.push(Type::Gate(3, 1));
    v.push(Type::SubroutineDef(SubroutineDef { num_params: 0, return_type: Box::new(Type::Void) }));
    v.push(Type::SubroutineDef(SubroutineDef {
        num_params: 2,
        return_type: Box::new(Type::Int(Some(32), IsConst::False)),
    }));
    v.push(Type::Range);
    v.push(Type::Set);
    v.push(Type::Void);
    v.push(Type::ToDo);
    v.push(Type::Undefined);
    v
}

// ---------------- R-tower: the order of the statement, as data ----------------

#[derive(Clone, Copy, PartialEq, Eq, Debug)]
enum Kind {
    Int,
    UInt,
    Float,
    Complex,
}

fn numeric(t: &Type) -> Option<(Kind, Option<u32>)> {
    match t {
        Type::Int(w, _) => Some((Kind::Int, *w)),
        Type::UInt(w, _) => Some((Kind::UInt, *w)),
        Type::Float(w, _) => Some((Kind::Float, *w)),
        Type::Complex(w, _) => Some((Kind::Complex, *w)),
        _ => None,
    }
}

fn kind_le(a: Kind, b: Kind) -> bool {
    use Kind::*;
    a == b || matches!((a, b), (Int, Float) | (UInt, Float) | (Int, Complex) | (UInt, Complex) | (Float, Complex))
}

fn width_le(a: Option<u32>, b: Option<u32>) -> bool {
    match (a, b) {
        (_, None) => true,
        (None, Some(_)) => false,
        (Some(x), Some(y)) => x <= y,
    }
}

/// Strip the const flag.
fn unconst(t: &Type) -> Type {
    use Type::*;
    let f = IsConst::False;
    match t {
        Bit(_) => Bit(f),
        Int(w, _) => Int(*w, f),
        UInt(w, _) => UInt(*w, f),
        Float(w, _) => Float(*w, f),
        Angle(w, _) => Angle(*w, f),
        Complex(w, _) => Complex(*w, f),
        Bool(_) => Bool(f),
        Duration(_) => Duration(f),
        Stretch(_) => Stretch(f),
        BitArray(d, _) => BitArray(d.clone(), f),
        other => other.clone(),
    }
}

fn eq_mod_const(a: &Type, b: &Type) -> bool {
    unconst(a) == unconst(b)
}

/// a <= b in the order of the statement (const-ness ignored).
fn le(a: &Type, b: &Type) -> bool {
    match (numeric(a), numeric(b)) {
        (Some((ka, wa)), Some((kb, wb))) => kind_le(ka, kb) && width_le(wa, wb),
        _ => eq_mod_const(a, b),
    }
}

/// Do a and b have an upper bound?
fn has_bound(a: &Type, b: &Type) -> bool {
    match (numeric(a), numeric(b)) {
        (Some(_), Some(_)) => true, // complex without width bounds every numeric type
        _ => eq_mod_const(a, b),
    }
}

pub fn self_check() -> Result<(), String> {
    // lattice laws of the reference itself, on its own data
    let tys = type_table();
    for a in &tys {
        if !le(a, a) {
            return Err(format!("R-tower: le not reflexive on {:?}", a));
        }
        for b in &tys {
            if le(a, b) && le(b, a) && !eq_mod_const(a, b) {
                return Err(format!("R-tower: le not antisymmetric on {:?} {:?}", a, b));
            }
            if has_bound(a, b) != tys.iter().any(|c| le(a, c) && le(b, c)) {
                return Err(format!("R-tower: has_bound disagrees with brute force on {:?} {:?}", a, b));
            }
            for c in &tys {
                if le(a, b) && le(b, c) && !le(a, c) {
                    return Err(format!("R-tower: le not transitive on {:?} {:?} {:?}", a, b, c));
                }
            }
        }
    }
    Ok(())
}

fn show_type(t: &Type) -> String {
    use Type::*;
    let c = |c: &IsConst| if matches!(c, IsConst::True) { "c" } else { "m" };
    let w = |w: &Option<u32>| match w {
        Some(x) => x.to_string(),
        None => "none".to_string(),
    };
    match t {
        Bit(k) => format!("Bit[{}]", c(k)),
        Bool(k) => format!("Bool[{}]", c(k)),
        Duration(k) => format!("Duration[{}]", c(k)),
        Stretch(k) => format!("Stretch[{}]", c(k)),
        Int(x, k) => format!("Int[{},{}]", w(x), c(k)),
        UInt(x, k) => format!("UInt[{},{}]", w(x), c(k)),
        Float(x, k) => format!("Float[{},{}]", w(x), c(k)),
        Angle(x, k) => format!("Angle[{},{}]", w(x), c(k)),
        Complex(x, k) => format!("Complex[{},{}]", w(x), c(k)),
        BitArray(d, k) => format!("BitArray[{:?},{}]", d.dims(), c(k)),
        other => format!("{:?}", other).replace(' ', ""),
    }
}

const OPS: &[(&str, ArithOp)] = &[
    ("Add", ArithOp::Add),
    ("Sub", ArithOp::Sub),
    ("Mul", ArithOp::Mul),
    ("Div", ArithOp::Div),
    ("Mod", ArithOp::Mod),
    ("Rem", ArithOp::Rem),
    ("Shl", ArithOp::Shl),
    ("Shr", ArithOp::Shr),
    ("BitXOr", ArithOp::BitXOr),
    ("BitOr", ArithOp::BitOr),
    ("BitAnd", ArithOp::BitAnd),
];

/// Check one ordered pair; `f` names the function (`promote`, `promote_ne`, `implicit(Op)`).
fn check_join(f: &str, a: &Type, b: &Type, p: &Type, q: &Type, ia: usize, ib: usize, ctx: &mut Ctx) {
    let wit = format!("{}({},{})", f, show_type(a), show_type(b));
    let case = json!({"f": f, "a": ia, "b": ib, "witness": wit});
    let kinds = format!("{:?}x{:?}", a.base_type(), b.base_type());
    let mut fail = |rule: &str, locus: &str, detail: String| {
        ctx.fail(Failure {
            rule: rule.into(),
            witness: wit.clone(),
            locus: format!("{} [{}]", kinds, locus),
            detail,
            case: case.clone(),
        })
    };
    let void = *p == Type::Void;
    // symmetric up to const-ness
    if !eq_mod_const(p, q) {
        fail("join_symmetric", "symmetry", format!("f(a,b) = {} but f(b,a) = {}", show_type(p), show_type(q)));
    }
    // the type itself for two equal types
    if a == b && p != a && f != "promote_ne" && !f.starts_with("implicit(Div") {
        fail("join_idempotent", "idempotence", format!("f(t,t) = {} for t = {}", show_type(p), show_type(a)));
    }
    let exists = has_bound(a, b);
    if void {
        if exists && *a != Type::Void {
            fail("join_exists", "no common type although a bound exists", "result is 'no common type' but the operands have an upper bound".into());
        }
        return;
    }
    if !exists {
        fail("join_exists", "common type although no bound exists", format!("result {} for operands without an upper bound", show_type(p)));
        return;
    }
    if !le(a, p) || !le(b, p) {
        // a result of too low a kind (float for a complex operand) is another defect than a
        // result of the right kind whose width is too small: the locus keeps them apart
        let kind_ok = match (numeric(a), numeric(b), numeric(p)) {
            (Some((ka, _)), Some((kb, _)), Some((kp, _))) => kind_le(ka, kp) && kind_le(kb, kp),
            _ => false,
        };
        let locus = if kind_ok { "result below an operand in width" } else { "result below an operand in kind" };
        fail("join_upper_bound", locus, format!("result {} is not an upper bound of both operands", show_type(p)));
    }
    if p.is_const() && !(a.is_const() && b.is_const()) {
        fail("join_const", "const result from a non-const operand", format!("result {} is const although an operand is not", show_type(p)));
    }
}

pub struct Pairs {
    tys: Vec<Type>,
}

impl Pairs {
    fn check_pair(&self, ia: usize, ib: usize, ctx: &mut Ctx) {
        let a = &self.tys[ia];
        let b = &self.tys[ib];
        let r = catch(|| {
            let p = types::promote_types(a, b);
            let q = types::promote_types(b, a);
            let pn = types::promote_types_not_equal(a, b);
            let qn = types::promote_types_not_equal(b, a);
            let lit = types::can_cast_literal(a, b);
            let eb = types::equal_base_type(a, b);
            let imp: Vec<(Type, Type)> =
                OPS.iter().map(|(_, op)| (implicit_cast_type(op, a, b), implicit_cast_type(op, b, a))).collect();
            (p, q, pn, qn, lit, eb, imp)
        });
        let (p, q, pn, qn, lit, eb, imp) = match r {
            Ok(x) => x,
            Err(pi) => {
                let wit = format!("promote({},{})", show_type(a), show_type(b));
                ctx.fail(Failure {
                    rule: "returns_normally".into(),
                    witness: wit.clone(),
                    locus: pi.locus(),
                    detail: pi.message,
                    case: json!({"f": "promote", "a": ia, "b": ib, "witness": wit}),
                });
                return;
            }
        };
        check_join("promote", a, b, &p, &q, ia, ib, ctx);
        if a != b && !eq_mod_const(a, b) {
            // promote_types_not_equal is only meaningful for types that differ
            check_join("promote_ne", a, b, &pn, &qn, ia, ib, ctx);
        }
        for (k, (name, _)) in OPS.iter().enumerate() {
            check_join(&format!("implicit({})", name), a, b, &imp[k].0, &imp[k].1, ia, ib, ctx);
        }
        // literal castability
        let wit = format!("can_cast_literal({},{})", show_type(a), show_type(b));
        let case = json!({"f": "can_cast_literal", "a": ia, "b": ib, "witness": wit});
        let promotes_into_target = p != Type::Void && eq_mod_const(&p, a);
        if promotes_into_target && !lit && *a != Type::Void {
            ctx.fail(Failure {
                rule: "literal_superset".into(),
                witness: wit.clone(),
                locus: "castability below promotion".into(),
                detail: "a literal of the second type promotes into the first but is not castable to it".into(),
                case: case.clone(),
            });
        }
        let forbidden = matches!(
            (a, b),
            (Type::Int(..), Type::Float(..))
                | (Type::UInt(..), Type::Float(..))
                | (Type::Int(..), Type::Complex(..))
                | (Type::UInt(..), Type::Complex(..))
                | (Type::Float(..), Type::Complex(..))
        );
        if forbidden && lit {
            ctx.fail(Failure {
                rule: "literal_never_narrows".into(),
                witness: wit,
                locus: "narrowing literal cast allowed".into(),
                detail: "float/complex literal castable to an integer target, or complex to a float target".into(),
                case,
            });
        }
        if eb != (a.base_type() == b.base_type()) {
            ctx.fail(Failure {
                rule: "equal_base_type".into(),
                witness: format!("equal_base_type({},{})", show_type(a), show_type(b)),
                locus: String::new(),
                detail: "equal_base_type disagrees with base_type()".into(),
                case: json!({"f": "equal_base_type", "a": ia, "b": ib}),
            });
        }
        ctx.outcome(fnv_str(&show_type(&p)));
        if p != Type::Void && p != *a && p != *b {
            ctx.mark_nontrivial(fnv_mix(ia as u64, ib as u64));
        }
    }
}

impl Space for Pairs {
    fn name(&self) -> String {
        "T-TYPES/pairs".into()
    }
    fn describe(&self) -> Value {
        json!({"space": "T-TYPES", "types": self.tys.len(), "ordered_pairs": self.tys.len() * self.tys.len(),
               "functions": ["promote_types", "promote_types_not_equal", "can_cast_literal", "equal_base_type", "implicit_cast_type x 11 operators"]})
    }
    fn num_blocks(&self) -> u64 {
        self.tys.len() as u64
    }
    fn run_block(&self, block: u64, ctx: &mut Ctx) {
        let ia = block as usize;
        for ib in 0..self.tys.len() {
            if ctx.begin(|| json!({"a": show_type(&self.tys[ia]), "b": show_type(&self.tys[ib])})) {
                self.check_pair(ia, ib, ctx);
            }
        }
    }
    fn replay(&self, case: &Value, ctx: &mut Ctx) {
        let ia = case["a"].as_u64().unwrap_or(0) as usize;
        let ib = case["b"].as_u64().unwrap_or(0) as usize;
        ctx.begin(|| case.clone());
        if ia < self.tys.len() && ib < self.tys.len() {
            self.check_pair(ia, ib, ctx);
        }
    }
}

pub struct Triples {
    tys: Vec<Type>,
}

impl Triples {
    fn check(&self, ia: usize, ib: usize, ic: usize, ctx: &mut Ctx) {
        let (a, b, c) = (&self.tys[ia], &self.tys[ib], &self.tys[ic]);
        let r = catch(|| {
            let ab = types::promote_types(a, b);
            let bc = types::promote_types(b, c);
            if ab == Type::Void || bc == Type::Void {
                return None;
            }
            let l = types::promote_types(&ab, c);
            let r = types::promote_types(a, &bc);
            Some((l, r))
        });
        match r {
            Ok(None) => {}
            Ok(Some((l, r))) => {
                if l == Type::Void || r == Type::Void {
                    return;
                }
                ctx.outcome(fnv_str(&show_type(&l)));
                if l != *a && l != *b && l != *c {
                    ctx.mark_nontrivial(fnv_mix(fnv_mix(ia as u64, ib as u64), ic as u64));
                }
                if !eq_mod_const(&l, &r) {
                    let wit = format!("promote3({},{},{})", show_type(a), show_type(b), show_type(c));
                    ctx.fail(Failure {
                        rule: "join_associative".into(),
                        witness: wit.clone(),
                        locus: "associativity".into(),
                        detail: format!("(a v b) v c = {} but a v (b v c) = {}", show_type(&l), show_type(&r)),
                        case: json!({"a": ia, "b": ib, "c": ic, "witness": wit}),
                    });
                }
            }
            Err(pi) => {
                let wit = format!("promote3({},{},{})", show_type(a), show_type(b), show_type(c));
                ctx.fail(Failure {
                    rule: "returns_normally".into(),
                    witness: wit.clone(),
                    locus: pi.locus(),
                    detail: pi.message,
                    case: json!({"a": ia, "b": ib, "c": ic, "witness": wit}),
                });
            }
        }
    }
}

impl Space for Triples {
    fn name(&self) -> String {
        "T-TYPES/triples".into()
    }
    fn describe(&self) -> Value {
        let n = self.tys.len();
        json!({"space": "T-TYPES", "types": n, "triples": n * n * n, "function": "promote_types (associativity where all joins exist)"})
    }
    fn num_blocks(&self) -> u64 {
        self.tys.len() as u64
    }
    fn run_block(&self, block: u64, ctx: &mut Ctx) {
        let ia = block as usize;
        for ib in 0..self.tys.len() {
            for ic in 0..self.tys.len() {
                if ctx.begin(|| json!({"a": show_type(&self.tys[ia]), "b": show_type(&self.tys[ib]), "c": show_type(&self.tys[ic])})) {
                    self.check(ia, ib, ic, ctx);
                }
            }
        }
    }
    fn replay(&self, case: &Value, ctx: &mut Ctx) {
        let g = |k: &str| case[k].as_u64().unwrap_or(0) as usize;
        ctx.begin(|| case.clone());
        if g("a") < self.tys.len() && g("b") < self.tys.len() && g("c") < self.tys.len() {
            self.check(g("a"), g("b"), g("c"), ctx);
        }
    }
}

pub fn spaces(_tier: Tier, _seed: u64) -> Vec<Box<dyn Space>> {
    vec![Box::new(Pairs { tys: type_table() }), Box::new(Triples { tys: type_table() })]
}
