//! Registry of the properties: meta data, spaces per tier, self-checks.

use crate::core::{Space, Tier};

pub mod c01;
pub mod c02;
pub mod c03;
pub mod c04;
pub mod c05;
pub mod c06;
pub mod c07;
pub mod c08;
pub mod c09;
pub mod c10;
pub mod c11;
pub mod c12;
pub mod c13;
pub mod c14;
pub mod c15;
pub mod c16;
pub mod c17;
pub mod c18;
pub mod c19;
pub mod c20;
pub mod gprog;

pub const ALL: &[&str] = &["C01", "C02", "C03", "C04", "C05", "C06", "C07", "C08", "C09", "C10", "C11", "C12", "C13", "C14", "C15", "C16", "C17", "C18", "C19", "C20"];

pub fn intern(id: &str) -> Option<&'static str> {
    ALL.iter().copied().find(|p| *p == id)
}

pub struct Meta {
    pub level: &'static str,
    /// How cases are enumerated and what makes one non-trivial / distinct.
    pub rule: &'static str,
    pub assumptions: Vec<&'static str>,
}

pub fn meta(prop: &str) -> Option<Meta> {
    match prop {
        "C01" => Some(c01::meta()),
        "C02" => Some(c02::meta()),
        "C03" => Some(c03::meta()),
        "C04" => Some(c04::meta()),
        "C05" => Some(c05::meta()),
        "C06" => Some(c06::meta()),
        "C07" => Some(c07::meta()),
        "C08" => Some(c08::meta()),
        "C09" => Some(c09::meta()),
        "C10" => Some(c10::meta()),
        "C11" => Some(c11::meta()),
        "C12" => Some(c12::meta()),
        "C13" => Some(c13::meta()),
        "C14" => Some(c14::meta()),
        "C15" => Some(c15::meta()),
        "C16" => Some(c16::meta()),
        "C17" => Some(c17::meta()),
        "C18" => Some(c18::meta()),
        "C19" => Some(c19::meta()),
        "C20" => Some(c20::meta()),
        _ => None,
    }
}

pub fn spaces(prop: &str, tier: Tier, seed: u64) -> Vec<Box<dyn Space>> {
    match prop {
        "C01" => c01::spaces(tier, seed),
        "C02" => c02::spaces(tier, seed),
        "C03" => c03::spaces(tier, seed),
        "C04" => c04::spaces(tier, seed),
        "C05" => c05::spaces(tier, seed),
        "C06" => c06::spaces(tier, seed),
        "C07" => c07::spaces(tier, seed),
        "C08" => c08::spaces(tier, seed),
        "C09" => c09::spaces(tier, seed),
        "C10" => c10::spaces(tier, seed),
        "C11" => c11::spaces(tier, seed),
        "C12" => c12::spaces(tier, seed),
        "C13" => c13::spaces(tier, seed),
        "C14" => c14::spaces(tier, seed),
        "C15" => c15::spaces(tier, seed),
        "C16" => c16::spaces(tier, seed),
        "C17" => c17::spaces(tier, seed),
        "C18" => c18::spaces(tier, seed),
        "C19" => c19::spaces(tier, seed),
        "C20" => c20::spaces(tier, seed),
        _ => Vec::new(),
    }
}

/// Self-checks of reference models and alphabets; a failure is a machinery error (exit 2).
pub fn self_check(prop: &str) -> Result<(), String> {
    match prop {
        "C01" | "C02" | "C03" | "C11" | "C12" | "C14" => c01::self_check(),
        "C05" => c05::self_check(),
        "C15" => c15::self_check(),
        "C20" => c20::self_check(),
        _ => Ok(()),
    }
}

/// Developer helper, not used by any registered check:
///   oq3verif probe parse <text>     dump the syntax tree and diagnostics
///   oq3verif probe sema <text>      dump the semantic graph, symbols and diagnostics
///   oq3verif probe lex <text>       dump the token table
pub fn probe(args: &[String]) -> i32 {
    use oq3_semantics::syntax_to_semantics::parse_source_string;
    let text = args.get(1).cloned().unwrap_or_default();
    match args.first().map(|s| s.as_str()) {
        Some("lex") => {
            let lexed = oq3_parser::LexedStr::new(&text);
            for i in 0..lexed.len() {
                println!("{:?} {:?}", lexed.kind(i), lexed.text(i));
            }
            for (i, m) in lexed.errors() {
                println!("error at token {}: {}", i, m);
            }
        }
        Some("rawparse") => {
            let (green, errs) = oq3_syntax::parse_text(&text);
            let root = oq3_syntax::SyntaxNode::new_root(green);
            println!("{:#?}", root);
            for e in errs {
                println!("error {:?}: {}", e.range(), e);
            }
        }
        Some("parse") => {
            let p = oq3_syntax::ast::SourceFile::parse(&text);
            println!("{}", p.debug_dump());
        }
        Some("sema") => {
            let r = parse_source_string(text.as_str(), None);
            println!("syntax errors: {}", r.any_syntax_errors());
            r.program().print_asg_debug();
            r.symbol_table().dump();
            for e in r.semantic_errors().iter() {
                println!("semantic error: {:?} at {:?}", e.kind(), e.range());
            }
        }
        _ => return 2,
    }
    0
}
