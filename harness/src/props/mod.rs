//! Registry of the properties: meta data, spaces per tier, self-checks.

use crate::core::{Space, Tier};

pub mod c14;
pub mod c19;
pub mod c20;

pub const ALL: &[&str] = &["C14", "C19", "C20"];

pub fn intern(id: &str) -> Option<&'static str> {
    ALL.iter().copied().find(|p| *p == id)
}

pub struct Meta {
    pub level: &'static str,
    /// How cases are enumerated and what makes one non-trivial / distinct.
    pub rule: &'static str,
    pub assumptions: Vec<&'static str>,
}

pub fn meta(prop: &str) -> Option<Meta> {
    match prop {
        "C14" => Some(c14::meta()),
        "C19" => Some(c19::meta()),
        "C20" => Some(c20::meta()),
        _ => None,
    }
}

pub fn spaces(prop: &str, tier: Tier, seed: u64) -> Vec<Box<dyn Space>> {
    match prop {
        "C14" => c14::spaces(tier, seed),
        "C19" => c19::spaces(tier, seed),
        "C20" => c20::spaces(tier, seed),
        _ => Vec::new(),
    }
}

/// Self-checks of reference models and alphabets; a failure is a machinery error (exit 2).
pub fn self_check(prop: &str) -> Result<(), String> {
    match prop {
        "C20" => c20::self_check(),
        _ => Ok(()),
    }
}

/// Developer helper, not used by any registered check.
pub fn probe(_args: &[String]) -> i32 {
    0
}
