//! C07 — names resolve by lexical scoping; undeclared and duplicate names are diagnosed.
//!
//! Exhaustive exploration of scope/declaration/use *operation histories*: every well-formed
//! history up to a length bound is rendered as one program, analysed by the real front end,
//! and compared, use by use, with a reference scope machine (a stack of ordered maps).

use crate::core::*;
use crate::props::Meta;
use oq3_semantics::asg;
use oq3_semantics::semantic_error::SemanticErrorKind;
use oq3_semantics::symbols::{SymbolError, SymbolIdResult, SymbolTable, SymbolType};
use oq3_semantics::syntax_to_semantics::parse_source_string;
use oq3_semantics::types::Type;
use serde_json::{json, Value};
use std::collections::BTreeMap;

pub fn meta() -> Meta {
    Meta {
        level: "model_checking",
        rule: "every well-formed history of at most L operations over {declare int x, declare const x, declare qubit x, declare int x = y, use x, for x in [0:y], if (x == 1), while (x == 1), a declaration as brace-less body of if / else / while / for, assign x, gate-call x, call expression x(y) and x(y, 1, y), open if / else / while / for x / case / default / gate(x) / def(x), close} for x in a two-name pool (four pools: user names; pi and the library gate h; the built-in gate U; non-ASCII names), rendered as a program and analysed by the real front end; every symbol reference of the graph is compared with the reference scope stack; states = distinct reference scope stacks reached, transitions = distinct (state, operation) pairs, traces = histories executed; a history is non-trivial when some use resolves through at least two open scopes or to a shadowing declaration, or is a duplicate declaration",
        assumptions: vec![
            "the generator never redeclares a for-loop variable directly in its own loop body and never uses a gate/subroutine name inside its own body (the statement does not fix these cases); gate/def parameters and body are one scope",
            "hook oq3_verif: scope depth accessor",
        ],
    }
}

#[derive(Clone, Copy, Debug, PartialEq, Eq)]
pub enum Op {
    DeclInt(u8),
    DeclConst(u8),
    DeclQubit(u8),
    /// `input int x;` / `output int x;` (1) — declarations of the global scope
    DeclIo(u8, u8),
    /// `int x = y;` — the initializer is a use that precedes the binding of x
    DeclInit(u8, u8),
    /// `let x = y;` at the top level — an alias is a declaration of x whose right-hand side is
    /// a use that precedes the binding of x
    Alias(u8, u8),
    /// `x[y] = 1;` — two uses: the base and the identifier inside its index
    AssignIndexed(u8, u8),
    Use(u8),
    Assign(u8),
    CallGate(u8),
    /// `x(y);` — a call expression: the callee and the argument are two uses, whatever the
    /// callee turns out to be (undeclared, a variable, a gate)
    CallFn(u8, u8),
    /// `x(y, 1, y);` — every argument is a use
    CallFn2(u8, u8),
    If,
    /// `if (x == 1) {` — the condition is a use resolved outside the new scope
    IfUse(u8),
    Else,
    While,
    /// `while (x == 1) {`
    WhileUse(u8),
    /// a declaration as the brace-less body of a compound statement (0: if, 1: else of an empty
    /// if, 2: while, 3: for): `while (true) int x;` — declared in a scope of its own
    BodyDecl(u8, u8),
    For(u8),
    /// `for int x in [0:y] {` — the iterable is a use that is resolved outside the loop scope
    ForIn(u8, u8),
    Case,
    Default,
    Gate(u8),
    Def(u8),
    Close,
}

pub const OPS: [Op; 46] = [
    Op::DeclInt(0),
    Op::DeclInt(1),
    Op::DeclConst(0),
    Op::DeclQubit(1),
    Op::Use(0),
    Op::Use(1),
    Op::Assign(0),
    Op::CallGate(1),
    Op::If,
    Op::Else,
    Op::While,
    Op::For(0),
    Op::For(1),
    Op::Case,
    Op::Default,
    Op::Gate(0),
    Op::Def(1),
    Op::Close,
    Op::Alias(0, 1),
    Op::AssignIndexed(0, 1),
    Op::DeclIo(0, 0),
    Op::DeclInit(0, 0),
    Op::DeclInit(0, 1),
    Op::DeclInit(1, 0),
    Op::ForIn(0, 0),
    Op::ForIn(0, 1),
    Op::ForIn(1, 0),
    Op::BodyDecl(2, 0),
    Op::BodyDecl(0, 1),
    Op::DeclConst(1),
    Op::CallGate(0),
    Op::Assign(1),
    Op::IfUse(0),
    Op::WhileUse(1),
    Op::IfUse(1),
    Op::BodyDecl(1, 0),
    Op::BodyDecl(3, 1),
    Op::Alias(1, 0),
    Op::Alias(0, 0),
    Op::AssignIndexed(1, 0),
    Op::AssignIndexed(0, 0),
    Op::DeclIo(1, 1),
    Op::CallFn(0, 1),
    Op::CallFn(1, 0),
    Op::CallFn(0, 0),
    Op::CallFn2(1, 0),
];
/// the first 29 operations are the quick alphabet; the second space of each tier uses all 46
pub const N_QUICK_OPS: usize = 29;

fn op_name(op: Op, names: &[&str; 2]) -> String {
    match op {
        Op::DeclInt(n) => format!("int:{}", names[n as usize]),
        Op::DeclConst(n) => format!("const:{}", names[n as usize]),
        Op::DeclQubit(n) => format!("qubit:{}", names[n as usize]),
        Op::DeclIo(k, n) => format!("{}:{}", if k == 0 { "input" } else { "output" }, names[n as usize]),
        Op::DeclInit(n, m) => format!("int:{}={}", names[n as usize], names[m as usize]),
        Op::Alias(n, m) => format!("let:{}={}", names[n as usize], names[m as usize]),
        Op::AssignIndexed(n, m) => format!("assign:{}[{}]", names[n as usize], names[m as usize]),
        Op::Use(n) => format!("use:{}", names[n as usize]),
        Op::Assign(n) => format!("assign:{}", names[n as usize]),
        Op::CallGate(n) => format!("call:{}", names[n as usize]),
        Op::CallFn(n, m) => format!("callfn:{}({})", names[n as usize], names[m as usize]),
        Op::CallFn2(n, m) => format!("callfn:{}({},1,{})", names[n as usize], names[m as usize], names[m as usize]),
        Op::BodyDecl(k, n) => format!("{}-body int:{}", ["if", "else", "while", "for"][k as usize], names[n as usize]),
        Op::If => "if".into(),
        Op::IfUse(n) => format!("if?{}", names[n as usize]),
        Op::WhileUse(n) => format!("while?{}", names[n as usize]),
        Op::Else => "else".into(),
        Op::While => "while".into(),
        Op::For(n) => format!("for:{}", names[n as usize]),
        Op::ForIn(n, m) => format!("for:{}<-{}", names[n as usize], names[m as usize]),
        Op::Case => "case".into(),
        Op::Default => "default".into(),
        Op::Gate(n) => format!("gate:{}", names[n as usize]),
        Op::Def(n) => format!("def:{}", names[n as usize]),
        Op::Close => "close".into(),
    }
}

#[derive(Clone, Copy, PartialEq, Eq, Debug)]
enum Frame {
    If,
    Else,
    While,
    For(u8),
    Switch, // case or default (closes two braces)
    Sub,
}

/// Expected event: one symbol reference of the graph, in graph order.
#[derive(Clone, Debug)]
pub struct Expect {
    name: String,
    /// byte range of the identifier token in the program text
    range: (usize, usize),
    is_decl: bool,
    /// expected resolution: index of the declaring event (or a built-in), None = unresolved /
    /// (for declarations) None = already bound
    target: Option<Target>,
    gate_use: bool,
    /// the use is an expression statement, whose type can be observed
    typed: bool,
    deep: bool,
}

#[derive(Clone, Debug, PartialEq)]
pub enum Target {
    Event(usize),
    Builtin,
}

pub const FAMILIES: [(&str, [&str; 2], bool); 4] = [("user", ["a", "b"], false), ("lib", ["pi", "h"], true), ("builtin", ["U", "a"], false), ("unicode", ["é", "变量"], false)];

pub struct Rendered {
    pub text: String,
    events: Vec<Expect>,
    states: Vec<u64>,
    nontrivial: bool,
}

/// Render the history and run the reference scope machine. Returns None if ill-formed.
pub fn render(hist: &[Op], family: usize) -> Option<Rendered> {
    let (_, names, include) = FAMILIES[family];
    let mut text = String::new();
    // reference scope stack: name -> Target
    let mut scopes: Vec<BTreeMap<String, Target>> = vec![BTreeMap::new()];
    for b in ["pi", "π", "euler", "ℇ", "tau", "τ", "U"] {
        scopes[0].insert(b.to_string(), Target::Builtin);
    }
    if include {
        text.push_str("include \"stdgates.inc\";\n");
        for g in ["x", "y", "z", "h", "s", "sdg", "t", "tdg", "sx", "id", "p", "rx", "ry", "rz", "phase", "u1", "u2", "u3", "cx", "cy", "cz", "ch", "swap", "CX", "cp", "crx", "cry", "crz", "cphase", "cu", "ccx", "cswap"] {
            scopes[0].insert(g.to_string(), Target::Builtin);
        }
    }
    let mut events: Vec<Expect> = Vec::new();
    let mut frames: Vec<(Frame, Vec<Expect>)> = Vec::new(); // pending name events of gate/def
    let mut states = Vec::new();
    let mut nontrivial = false;
    let mut uniq = 0usize;
    let mut last_closed_if = false;
    let mut just_opened_for: Option<u8> = None;

    fn state_hash(scopes: &[BTreeMap<String, Target>]) -> u64 {
        let mut h = 7u64;
        for (d, s) in scopes.iter().enumerate() {
            h = fnv_mix(h, 0xabc + d as u64);
            for (k, v) in s {
                if *v == Target::Builtin && d == 0 {
                    continue;
                }
                h = fnv_mix(h, fnv_str(k));
                h = fnv_mix(h, match v { Target::Event(i) => *i as u64, Target::Builtin => 0xffff });
            }
        }
        h
    }
    let lookup = |scopes: &[BTreeMap<String, Target>], n: &str| -> (Option<Target>, usize) {
        for (d, s) in scopes.iter().enumerate().rev() {
            if let Some(t) = s.get(n) {
                return (Some(t.clone()), scopes.len() - 1 - d);
            }
        }
        (None, 0)
    };

    for (pos, op) in hist.iter().enumerate() {
        let was_closed_if = last_closed_if;
        last_closed_if = false;
        let for_guard = just_opened_for.take();
        // a declaration of the loop variable's name directly in the loop body is not generated
        let in_for_body_of = frames.last().and_then(|f| if let Frame::For(n) = f.0 { Some(n) } else { None });
        let _ = for_guard;
        let mut decl = |text: &mut String, events: &mut Vec<Expect>, scopes: &mut Vec<BTreeMap<String, Target>>, name: &str, pre: &str, post: &str, nontrivial: &mut bool| {
            text.push_str(pre);
            let start = text.len();
            text.push_str(name);
            let end = text.len();
            text.push_str(post);
            let idx = events.len();
            let cur = scopes.last_mut().unwrap();
            let target = if cur.contains_key(name) {
                *nontrivial = true;
                None
            } else {
                cur.insert(name.to_string(), Target::Event(idx));
                Some(Target::Event(idx))
            };
            events.push(Expect { name: name.to_string(), range: (start, end), is_decl: true, target, gate_use: false, typed: false, deep: false });
        };
        match *op {
            Op::DeclInt(n) | Op::DeclConst(n) | Op::DeclQubit(n) => {
                if in_for_body_of == Some(n) {
                    return None;
                }
                let name = names[n as usize];
                let (pre, post) = match op {
                    Op::DeclInt(_) => ("int ", ";\n"),
                    Op::DeclConst(_) => ("const int ", " = 1;\n"),
                    _ => ("qubit ", ";\n"),
                };
                decl(&mut text, &mut events, &mut scopes, name, pre, post, &mut nontrivial);
            }
            Op::DeclIo(k, n) => {
                // I/O declarations belong to the global scope
                if !frames.is_empty() {
                    return None;
                }
                decl(&mut text, &mut events, &mut scopes, names[n as usize], if k == 0 { "input int " } else { "output int " }, ";\n", &mut nontrivial);
            }
            Op::DeclInit(n, m) => {
                if in_for_body_of == Some(n) {
                    return None;
                }
                // the initializer is resolved before the declared name is bound
                let init = names[m as usize];
                let (target, dist) = lookup(&scopes, init);
                decl(&mut text, &mut events, &mut scopes, names[n as usize], "int ", " = ", &mut nontrivial);
                let start = text.len();
                text.push_str(init);
                let end = text.len();
                text.push_str(";\n");
                if n == m || target.is_some() && dist >= 1 {
                    nontrivial = true;
                }
                events.push(Expect { name: init.to_string(), range: (start, end), is_decl: false, target, gate_use: false, typed: false, deep: dist >= 1 });
            }
            Op::Alias(n, m) => {
                // aliases are declared at the top level only (`let` inside a block is parsed as
                // another, unsupported statement: a recorded finding of C05 / C16)
                if !frames.is_empty() {
                    return None;
                }
                // ... and only while the file has held declarations and compound statements so
                // far (once an expression-like statement has been met, `let` is that other
                // statement too: the recorded finding)
                if hist[..pos].iter().any(|o| matches!(o, Op::Use(_) | Op::Assign(_) | Op::CallGate(_) | Op::AssignIndexed(..) | Op::CallFn(..) | Op::CallFn2(..))) {
                    return None;
                }
                let rhs = names[m as usize];
                let (target, dist) = lookup(&scopes, rhs);
                decl(&mut text, &mut events, &mut scopes, names[n as usize], "let ", " = ", &mut nontrivial);
                let start = text.len();
                text.push_str(rhs);
                let end = text.len();
                text.push_str(";\n");
                if target.is_some() {
                    nontrivial = true;
                }
                events.push(Expect { name: rhs.to_string(), range: (start, end), is_decl: false, target, gate_use: false, typed: false, deep: dist >= 1 });
            }
            Op::AssignIndexed(n, m) => {
                for (k, name) in [names[n as usize], names[m as usize]].into_iter().enumerate() {
                    let start = text.len();
                    text.push_str(name);
                    let end = text.len();
                    text.push_str(if k == 0 { "[" } else { "] = 1;\n" });
                    let (target, dist) = lookup(&scopes, name);
                    if target.is_none() && k == 0 {
                        nontrivial = true;
                    }
                    events.push(Expect { name: name.to_string(), range: (start, end), is_decl: false, target, gate_use: false, typed: false, deep: dist >= 1 });
                }
            }
            Op::CallFn(n, m) | Op::CallFn2(n, m) => {
                let arg = names[m as usize];
                let uses: Vec<(&str, &str)> = if matches!(op, Op::CallFn(..)) {
                    vec![(names[n as usize], "("), (arg, ");\n")]
                } else {
                    vec![(names[n as usize], "("), (arg, ", 1, "), (arg, ");\n")]
                };
                for (k, (name, after)) in uses.into_iter().enumerate() {
                    let start = text.len();
                    text.push_str(name);
                    let end = text.len();
                    text.push_str(after);
                    let (target, dist) = lookup(&scopes, name);
                    if k > 0 && lookup(&scopes, names[n as usize]).0.is_none() {
                        // an argument of a call whose callee is not declared
                        nontrivial = true;
                    }
                    events.push(Expect { name: name.to_string(), range: (start, end), is_decl: false, target, gate_use: false, typed: false, deep: dist >= 1 });
                }
            }
            Op::Use(n) | Op::Assign(n) | Op::CallGate(n) => {
                let name = names[n as usize];
                let start = text.len();
                text.push_str(name);
                let end = text.len();
                text.push_str(match op {
                    Op::Use(_) => ";\n",
                    Op::Assign(_) => " = 1;\n",
                    _ => " $0;\n",
                });
                let (target, dist) = lookup(&scopes, name);
                // resolves through at least two open scopes, or to a declaration that shadows another
                let shadows = scopes.iter().filter(|s| s.contains_key(name)).count() >= 2;
                if target.is_some() && (dist >= 2 || shadows) {
                    nontrivial = true;
                }
                events.push(Expect {
                    name: name.to_string(),
                    range: (start, end),
                    is_decl: false,
                    target,
                    gate_use: matches!(op, Op::CallGate(_)),
                    typed: matches!(op, Op::Use(_)),
                    deep: dist >= 1,
                });
            }
            Op::If => {
                text.push_str("if (true) {\n");
                frames.push((Frame::If, vec![]));
                scopes.push(BTreeMap::new());
            }
            Op::BodyDecl(k, n) => {
                // the single statement is the whole body: declared in a scope that closes at once
                let pre = match k {
                    0 => "if (true) int ",
                    1 => "if (true) { } else int ",
                    2 => "while (true) int ",
                    _ => "for int zz in [0:1] int ",
                };
                scopes.push(BTreeMap::new());
                if k == 3 {
                    // the loop variable lives in the same scope
                    let at = text.len() + "for int ".len();
                    let idx = events.len();
                    scopes.last_mut().unwrap().insert("zz".into(), Target::Event(idx));
                    events.push(Expect { name: "zz".into(), range: (at, at + 2), is_decl: true, target: Some(Target::Event(idx)), gate_use: false, typed: false, deep: false });
                }
                decl(&mut text, &mut events, &mut scopes, names[n as usize], pre, ";\n", &mut nontrivial);
                scopes.pop();
                nontrivial = true;
            }
            Op::IfUse(n) | Op::WhileUse(n) => {
                let name = names[n as usize];
                let (target, dist) = lookup(&scopes, name);
                text.push_str(if matches!(op, Op::IfUse(_)) { "if (" } else { "while (" });
                let start = text.len();
                text.push_str(name);
                let end = text.len();
                text.push_str(" == 1) {\n");
                events.push(Expect { name: name.to_string(), range: (start, end), is_decl: false, target, gate_use: false, typed: false, deep: dist >= 1 });
                frames.push((if matches!(op, Op::IfUse(_)) { Frame::If } else { Frame::While }, vec![]));
                scopes.push(BTreeMap::new());
            }
            Op::Else => {
                if !was_closed_if {
                    return None;
                }
                // re-open: replace the trailing "}\n" of the if by "} else {\n"
                if !text.ends_with("}\n") {
                    return None;
                }
                text.truncate(text.len() - 1);
                text.push_str(" else {\n");
                frames.push((Frame::Else, vec![]));
                scopes.push(BTreeMap::new());
            }
            Op::While => {
                text.push_str("while (true) {\n");
                frames.push((Frame::While, vec![]));
                scopes.push(BTreeMap::new());
            }
            Op::For(n) => {
                scopes.push(BTreeMap::new());
                frames.push((Frame::For(n), vec![]));
                decl(&mut text, &mut events, &mut scopes, names[n as usize], "for int ", " in [0:1] {\n", &mut nontrivial);
                just_opened_for = Some(n);
            }
            Op::ForIn(n, m) => {
                // the iterable is resolved before the loop scope (with the loop variable) exists
                let it = names[m as usize];
                let (target, dist) = lookup(&scopes, it);
                scopes.push(BTreeMap::new());
                frames.push((Frame::For(n), vec![]));
                decl(&mut text, &mut events, &mut scopes, names[n as usize], "for int ", " in [0:", &mut nontrivial);
                let start = text.len();
                text.push_str(it);
                let end = text.len();
                text.push_str("] {\n");
                if n == m || target.is_some() && dist >= 1 {
                    nontrivial = true;
                }
                events.push(Expect { name: it.to_string(), range: (start, end), is_decl: false, target, gate_use: false, typed: false, deep: dist >= 1 });
                just_opened_for = Some(n);
            }
            Op::Case => {
                text.push_str("switch (1) { case 1 {\n");
                frames.push((Frame::Switch, vec![]));
                scopes.push(BTreeMap::new());
            }
            Op::Default => {
                text.push_str("switch (1) { default {\n");
                frames.push((Frame::Switch, vec![]));
                scopes.push(BTreeMap::new());
            }
            Op::Gate(n) => {
                uniq += 1;
                let gname = format!("g{}", uniq);
                text.push_str("gate ");
                let gs = text.len();
                text.push_str(&gname);
                let ge = text.len();
                scopes.push(BTreeMap::new());
                decl(&mut text, &mut events, &mut scopes, names[n as usize], "(", ") ", &mut nontrivial);
                let qname = format!("q{}", uniq);
                decl(&mut text, &mut events, &mut scopes, &qname, "", " {\n", &mut nontrivial);
                // the gate name is bound in the enclosing scope after the body
                frames.push((Frame::Sub, vec![Expect { name: gname, range: (gs, ge), is_decl: true, target: None, gate_use: false, typed: false, deep: false }]));
            }
            Op::Def(n) => {
                uniq += 1;
                let fname = format!("f{}", uniq);
                text.push_str("def ");
                let fs = text.len();
                text.push_str(&fname);
                let fe = text.len();
                scopes.push(BTreeMap::new());
                decl(&mut text, &mut events, &mut scopes, names[n as usize], "(int ", ") {\n", &mut nontrivial);
                frames.push((Frame::Sub, vec![Expect { name: fname, range: (fs, fe), is_decl: true, target: None, gate_use: false, typed: false, deep: false }]));
            }
            Op::Close => {
                let (f, pending) = frames.pop()?;
                scopes.pop();
                match f {
                    Frame::Switch => text.push_str("} }\n"),
                    _ => text.push_str("}\n"),
                }
                if f == Frame::If {
                    last_closed_if = true;
                }
                for mut e in pending {
                    let idx = events.len();
                    let cur = scopes.last_mut().unwrap();
                    e.target = if cur.contains_key(&e.name) {
                        None
                    } else {
                        cur.insert(e.name.clone(), Target::Event(idx));
                        Some(Target::Event(idx))
                    };
                    events.push(e);
                }
            }
        }
        let _ = pos;
        states.push(state_hash(&scopes));
    }
    // close whatever is still open
    while let Some((f, pending)) = frames.pop() {
        scopes.pop();
        match f {
            Frame::Switch => text.push_str("} }\n"),
            _ => text.push_str("}\n"),
        }
        for mut e in pending {
            let idx = events.len();
            let cur = scopes.last_mut().unwrap();
            e.target = if cur.contains_key(&e.name) {
                None
            } else {
                cur.insert(e.name.clone(), Target::Event(idx));
                Some(Target::Event(idx))
            };
            events.push(e);
        }
    }
    Some(Rendered { text, events, states, nontrivial })
}

/// One symbol reference found in the graph.
struct Found {
    res: SymbolIdResult,
    ty: Option<Type>,
}

fn walk_block(stmts: &[asg::Stmt], out: &mut Vec<Found>) {
    for s in stmts {
        walk_stmt(s, out);
    }
}

/// The first identifier of an expression in source order (through casts and the left operand
/// of binary expressions).
fn first_ident(e: &asg::TExpr) -> Option<&oq3_semantics::symbols::SymbolIdResult> {
    match e.expression() {
        asg::Expr::Identifier(r) => Some(r),
        asg::Expr::Cast(c) => first_ident(c.operand()),
        asg::Expr::BinaryExpr(b) => first_ident(b.left()).or_else(|| first_ident(b.right())),
        _ => None,
    }
}

fn walk_stmt(s: &asg::Stmt, out: &mut Vec<Found>) {
    match s {
        asg::Stmt::DeclareClassical(d) => {
            out.push(Found { res: d.name().clone(), ty: None });
            // an initializer that is an identifier (possibly behind casts) is a use
            let mut e = d.initializer().map(|t| t.expression());
            while let Some(asg::Expr::Cast(c)) = e {
                e = Some(c.operand().expression());
            }
            if let Some(asg::Expr::Identifier(r)) = e {
                out.push(Found { res: r.clone(), ty: None });
            }
        }
        asg::Stmt::DeclareQuantum(d) => out.push(Found { res: d.name().clone(), ty: None }),
        asg::Stmt::ExprStmt(t) => match t.expression() {
            asg::Expr::Identifier(r) => out.push(Found { res: r.clone(), ty: Some(t.get_type().clone()) }),
            asg::Expr::SubroutineCall(c) => {
                // the callee, then every argument that is an identifier (possibly behind casts)
                out.push(Found { res: c.name().clone(), ty: None });
                for p in c.params().unwrap_or(&[]) {
                    let mut e = p.expression();
                    while let asg::Expr::Cast(k) = e {
                        e = k.operand().expression();
                    }
                    if let asg::Expr::Identifier(r) = e {
                        out.push(Found { res: r.clone(), ty: None });
                    }
                }
            }
            _ => {}
        },
        asg::Stmt::Assignment(a) => {
            match a.lvalue() {
                asg::LValue::Identifier(r) => out.push(Found { res: r.clone(), ty: None }),
                asg::LValue::IndexedIdentifier(ii) => {
                    out.push(Found { res: ii.identifier().clone(), ty: None });
                    for ix in ii.indexes() {
                        if let asg::IndexOperator::ExpressionList(l) = ix {
                            for e in &l.expressions {
                                if let asg::Expr::Identifier(r) = e.expression() {
                                    out.push(Found { res: r.clone(), ty: None });
                                }
                            }
                        }
                    }
                }
            }
        }
        asg::Stmt::GateCall(g) => out.push(Found { res: g.name().clone(), ty: None }),
        asg::Stmt::If(i) => {
            if let Some(r) = first_ident(i.condition()) {
                out.push(Found { res: r.clone(), ty: None });
            }
            walk_block(i.then_branch().statements(), out);
            if let Some(e) = i.else_branch() {
                walk_block(e.statements(), out);
            }
        }
        asg::Stmt::While(w) => {
            if let Some(r) = first_ident(w.condition()) {
                out.push(Found { res: r.clone(), ty: None });
            }
            walk_block(w.loop_body().statements(), out)
        }
        asg::Stmt::ForStmt(f) => {
            out.push(Found { res: f.loop_var().clone(), ty: None });
            // an identifier as the stop of a range iterable (possibly behind casts) is a use
            if let asg::ForIterable::RangeExpression(r) = f.iterable() {
                let mut e = r.stop().expression();
                while let asg::Expr::Cast(c) = e {
                    e = c.operand().expression();
                }
                if let asg::Expr::Identifier(id) = e {
                    out.push(Found { res: id.clone(), ty: None });
                }
            }
            walk_block(f.loop_body().statements(), out);
        }
        asg::Stmt::SwitchCaseStmt(sw) => {
            for c in sw.cases() {
                walk_block(c.statements(), out);
            }
            if let Some(d) = sw.default_block() {
                walk_block(d, out);
            }
        }
        asg::Stmt::GateDefinition(g) => {
            for p in g.params().unwrap_or(&[]) {
                out.push(Found { res: p.clone(), ty: None });
            }
            for q in g.qubits() {
                out.push(Found { res: q.clone(), ty: None });
            }
            walk_block(g.block().statements(), out);
            out.push(Found { res: g.name().clone(), ty: None });
        }
        asg::Stmt::DefStmt(d) => {
            for p in d.params() {
                out.push(Found { res: p.clone(), ty: None });
            }
            walk_block(d.block().statements(), out);
            out.push(Found { res: d.name().clone(), ty: None });
        }
        asg::Stmt::AnnotatedStmt(a) => walk_stmt(a.statement(), out),
        asg::Stmt::InputDeclaration(d) => out.push(Found { res: d.name().clone(), ty: None }),
        asg::Stmt::OutputDeclaration(d) => out.push(Found { res: d.name().clone(), ty: None }),
        asg::Stmt::Alias(a) => {
            out.push(Found { res: a.name().clone(), ty: None });
            if let asg::Expr::Identifier(r) = a.rhs().expression() {
                out.push(Found { res: r.clone(), ty: None });
            }
        }
        _ => {}
    }
}

/// All symbol references of declarations and plain uses in the graph, in source order.
pub fn walk_symbols(stmts: &[asg::Stmt]) -> Vec<SymbolIdResult> {
    let mut out = Vec::new();
    walk_block(stmts, &mut out);
    out.into_iter().map(|f| f.res).collect()
}

pub struct ScopeHistories {
    pub family: usize,
    pub max_len: usize,
    pub nops: usize,
}

impl ScopeHistories {
    fn witness(&self, hist: &[Op]) -> String {
        let names = FAMILIES[self.family].1;
        hist.iter().map(|o| op_name(*o, &names)).collect::<Vec<_>>().join(" ")
    }

    fn check(&self, hist: &[Op], ctx: &mut Ctx) -> bool {
        let r = match render(hist, self.family) {
            Some(r) => r,
            None => return false,
        };
        let wit = self.witness(hist);
        let case = json!({"family": self.family, "ops": hist.iter().map(|o| OPS.iter().position(|x| x == o).unwrap()).collect::<Vec<_>>(), "witness": wit, "text": r.text});
        if !ctx.begin(|| case.clone()) {
            return true;
        }
        ctx.count("traces", 1);
        let mut prev = 0u64;
        for (i, st) in r.states.iter().enumerate() {
            ctx.distinct("states", *st);
            ctx.distinct("transitions", fnv_mix(prev, OPS.iter().position(|x| *x == hist[i]).unwrap() as u64));
            prev = *st;
        }
        if let Some(st) = r.states.last() {
            ctx.outcome(*st);
        }
        if r.nontrivial {
            ctx.mark_nontrivial(fnv_mix(self.family as u64, fnv_str(&wit)));
        }
        let mut fail = |ctx: &mut Ctx, rule: &str, locus: String, detail: String| {
            ctx.fail(Failure { rule: rule.into(), witness: format!("[{}] {}", FAMILIES[self.family].0, wit), locus, detail: format!("{} -- program: `{}`", detail, show(&r.text)), case: case.clone() })
        };
        let text = r.text.clone();
        let res = catch(|| {
            let res = parse_source_string(text.as_str(), None);
            let mut found = Vec::new();
            walk_block(res.program().stmts(), &mut found);
            let errs: Vec<(String, usize, usize)> = res
                .semantic_errors()
                .iter()
                .map(|e| {
                    let k = match e.kind() {
                        SemanticErrorKind::UndefVarError => "UndefVar".to_string(),
                        SemanticErrorKind::UndefGateError => "UndefGate".to_string(),
                        SemanticErrorKind::RedeclarationError(n) => format!("Redeclaration:{}", n),
                        other => format!("other:{:?}", other),
                    };
                    (k, usize::from(e.range().start()), usize::from(e.range().end()))
                })
                .collect();
            let table: SymbolTable = res.symbol_table().clone();
            (res.any_syntax_errors(), found, errs, table.verif_scope_depth(), table)
        });
        let (any_syn, found, errs, depth, table) = match res {
            Ok(x) => x,
            Err(p) => {
                fail(ctx, "returns_normally", p.locus(), format!("analysis panicked: {}", p.message));
                return true;
            }
        };
        if any_syn {
            fail(ctx, "accepted", "syntax".into(), "the rendered history has syntax diagnostics".into());
            return true;
        }
        if depth != 1 {
            fail(ctx, "scope_stack_restored", format!("depth {}", depth), format!("{} scopes open after analysis", depth));
        }
        if found.len() != r.events.len() {
            fail(ctx, "resolves_to", "number of symbol references".into(), format!("the graph holds {} symbol references, the history has {}", found.len(), r.events.len()));
            return true;
        }
        // ids of the declaring events
        let mut id_of_event: BTreeMap<usize, String> = BTreeMap::new();
        for (i, (e, f)) in r.events.iter().zip(found.iter()).enumerate() {
            let what = format!("{} `{}` at byte {}", if e.is_decl { "declaration of" } else { "use of" }, e.name, e.range.0);
            match (&e.target, &f.res) {
                (Some(t), Ok(id)) => {
                    let sym = catch(|| (table[id].name().to_string(), table[id].symbol_type().clone()));
                    let (sname, _sty) = match sym {
                        Ok(x) => x,
                        Err(_) => {
                            fail(ctx, "resolves_to", "dangling symbol id".into(), format!("{}: the symbol id {:?} does not index the final symbol table", what, id));
                            continue;
                        }
                    };
                    if sname != e.name {
                        fail(ctx, "resolves_to", "symbol name".into(), format!("{}: refers to a symbol named `{}`", what, sname));
                    }
                    let ids = format!("{:?}", id);
                    match t {
                        Target::Event(k) if e.is_decl => {
                            debug_assert_eq!(*k, i);
                            if let Some((j, _)) = id_of_event.iter().find(|(_, v)| **v == ids) {
                                fail(ctx, "resolves_to", "distinct declarations share a symbol".into(), format!("{}: got the symbol of declaration event {}", what, j));
                            }
                            id_of_event.insert(i, ids);
                        }
                        Target::Event(k) => match id_of_event.get(k) {
                            Some(exp) if *exp == ids => {}
                            Some(exp) => fail(
                                ctx,
                                "resolves_to",
                                if e.deep { "outer declaration".into() } else { "same-scope declaration".into() },
                                format!("{}: resolves to {} but the innermost preceding declaration (event {}, `{}` at byte {}) created {}", what, ids, k, r.events[*k].name, r.events[*k].range.0, exp),
                            ),
                            None => fail(ctx, "resolves_to", "declaration without symbol".into(), format!("{}: its declaration (event {}) has no symbol", what, k)),
                        },
                        Target::Builtin => {
                            // the name check above is the comparison; a built-in is never a user declaration
                            if id_of_event.values().any(|v| *v == ids) {
                                fail(ctx, "resolves_to", "built-in".into(), format!("{}: resolves to a user declaration instead of the built-in", what));
                            }
                        }
                    }
                }
                (None, Err(err)) => {
                    let want = if e.is_decl { SymbolError::AlreadyBound } else { SymbolError::MissingBinding };
                    if *err != want {
                        fail(ctx, if e.is_decl { "redecl" } else { "undef_once" }, "marker".into(), format!("{}: marked {:?} in the graph, expected {:?}", what, err, want));
                    }
                    if e.typed {
                        if let Some(ty) = &f.ty {
                            if *ty != Type::Undefined {
                                fail(ctx, "undef_once", "type of unresolved use".into(), format!("{}: typed {:?} instead of Undefined", what, ty));
                            }
                        }
                    }
                }
                (Some(_), Err(err)) => fail(
                    ctx,
                    if e.is_decl { "redecl" } else { "resolves_to" },
                    if e.is_decl { "spurious redeclaration".into() } else { "visible declaration not found".into() },
                    format!("{}: marked {:?} although {}", what, err, if e.is_decl { "the name is not bound in the current scope" } else { "a declaration is visible" }),
                ),
                (None, Ok(id)) => fail(
                    ctx,
                    if e.is_decl { "redecl" } else { "resolves_to" },
                    if e.is_decl { "duplicate accepted".into() } else { "resolved although nothing is visible".into() },
                    format!("{}: has symbol {:?} although {}", what, id, if e.is_decl { "the name is already bound in this scope" } else { "no declaration is visible here" }),
                ),
            }
        }
        // diagnostics: exactly the predicted undefined / redeclaration reports
        let mut unused: Vec<bool> = vec![true; errs.len()];
        for e in r.events.iter().filter(|e| e.target.is_none()) {
            let want = if e.is_decl {
                format!("Redeclaration:{}", e.name)
            } else if e.gate_use {
                "UndefGate".to_string()
            } else {
                "UndefVar".to_string()
            };
            let hit = errs.iter().enumerate().position(|(k, (kind, s, t))| unused[k] && *kind == want && *s <= e.range.0 && e.range.1 <= *t);
            match hit {
                Some(k) => unused[k] = false,
                None => fail(
                    ctx,
                    if e.is_decl { "redecl" } else { "undef_once" },
                    "missing diagnostic".into(),
                    format!("no {} diagnostic on `{}` at bytes {}..{}; diagnostics: {:?}", want, e.name, e.range.0, e.range.1, errs),
                ),
            }
        }
        for (k, (kind, s, t)) in errs.iter().enumerate() {
            if unused[k] && (kind.starts_with("Undef") || kind.starts_with("Redeclaration")) {
                fail(ctx, if kind.starts_with("Undef") { "undef_once" } else { "redecl" }, "extra diagnostic".into(), format!("unexpected {} diagnostic at bytes {}..{} (`{}`)", kind, s, t, show(r.text.get(*s..*t).unwrap_or("?"))));
            }
        }
        true
    }

    fn dfs(&self, hist: &mut Vec<Op>, ctx: &mut Ctx) {
        if hist.len() >= self.max_len {
            return;
        }
        for op in &OPS[..self.nops] {
            hist.push(*op);
            if self.check(hist, ctx) {
                self.dfs(hist, ctx);
            }
            hist.pop();
        }
    }
}

impl Space for ScopeHistories {
    fn name(&self) -> String {
        format!("H-SCOPE/{}/ops={}/len<={}", FAMILIES[self.family].0, self.nops, self.max_len)
    }
    fn describe(&self) -> Value {
        json!({"space": "H-SCOPE", "names": FAMILIES[self.family].1, "operations": self.nops, "max_len": self.max_len,
               "note": "ill-formed histories (close without open, else not after an if, declaration of the loop variable in its own body) are pruned; open scopes are closed at the end"})
    }
    fn num_blocks(&self) -> u64 {
        1 + (self.nops * self.nops) as u64
    }
    fn run_block(&self, block: u64, ctx: &mut Ctx) {
        if block == 0 {
            self.check(&[], ctx);
            for op in &OPS[..self.nops] {
                self.check(&[*op], ctx);
            }
            return;
        }
        let o1 = OPS[(block as usize - 1) / self.nops];
        let o2 = OPS[(block as usize - 1) % self.nops];
        if render(&[o1], self.family).is_none() {
            return;
        }
        let mut hist = vec![o1, o2];
        if self.check(&hist, ctx) {
            self.dfs(&mut hist, ctx);
        }
    }
    fn replay(&self, case: &Value, ctx: &mut Ctx) {
        let ops: Vec<Op> = case["ops"].as_array().map(|a| a.iter().filter_map(|v| v.as_u64().and_then(|i| OPS.get(i as usize).copied())).collect()).unwrap_or_default();
        self.check(&ops, ctx);
    }
    fn block_timeout_s(&self) -> u64 {
        180
    }
}

pub fn spaces(tier: Tier, _seed: u64) -> Vec<Box<dyn Space>> {
    let mut v: Vec<Box<dyn Space>> = Vec::new();
    match tier {
        Tier::Quick => {
            v.push(Box::new(ScopeHistories { family: 0, max_len: 5, nops: N_QUICK_OPS }));
            v.push(Box::new(ScopeHistories { family: 0, max_len: 4, nops: OPS.len() }));
            v.push(Box::new(ScopeHistories { family: 1, max_len: 4, nops: N_QUICK_OPS }));
            v.push(Box::new(ScopeHistories { family: 2, max_len: 4, nops: N_QUICK_OPS }));
            v.push(Box::new(ScopeHistories { family: 3, max_len: 4, nops: N_QUICK_OPS }));
        }
        Tier::Thorough => {
            v.push(Box::new(ScopeHistories { family: 0, max_len: 6, nops: N_QUICK_OPS }));
            v.push(Box::new(ScopeHistories { family: 0, max_len: 5, nops: OPS.len() }));
            v.push(Box::new(ScopeHistories { family: 1, max_len: 5, nops: N_QUICK_OPS }));
            v.push(Box::new(ScopeHistories { family: 2, max_len: 5, nops: N_QUICK_OPS }));
            v.push(Box::new(ScopeHistories { family: 3, max_len: 5, nops: N_QUICK_OPS }));
        }
    }
    // declarations that arrive through include files obey the same rules (the same file twice,
    // files that use each other's names): C18's configurations with one directory
    v.push(Box::new(crate::props::c18::Configs { ndirs: 1, nfiles: 3 }));
    v
}
