//! C16 — statement parsing is compositional: context never changes a statement's parse.

use crate::core::*;
use crate::model::gen::*;
use crate::model::prog::*;
use crate::props::Meta;
use crate::subject;
use oq3_syntax::ast::{self, AstNode};
use oq3_syntax::{NodeOrToken, SyntaxNode};
use serde_json::{json, Value};

pub fn meta() -> Meta {
    Meta {
        level: "exploration",
        rule: "pool of statement texts (every leaf template of the model, block-bodied and single-statement compounds, the empty statement, pragma and annotation lines, gate and subroutine definitions); C = those that parse without diagnostics on their own (decided by the implementation); all sequences over C of length <= n at top level and inside each of 8 block contexts; the concatenation must parse without diagnostics and its statement list must be the concatenation of the parts' statement lists (same kinds, token texts and preorder kind sequences); non-trivial = sequences of at least two statements of different kinds; outcomes = distinct statement-kind sequences",
        assumptions: vec![
            "statements are joined by one blank (a newline after line-terminated ones)",
            "a part that yields no statement on its own (the empty statement) contributes no statement",
        ],
    }
}

pub fn pool() -> Vec<(String, String)> {
    let mut v: Vec<(String, String)> = Vec::new();
    for l in leaves() {
        v.push((l.name.to_string(), text_of(&[l.stmt.clone()])));
    }
    let a1 = Stmt::Assign { target: Operand::Id("a".into()), op: None, value: int(1) };
    let h = Stmt::GateCall { mods: vec![], name: "h".into(), args: None, operands: vec![Operand::Id("r".into())] };
    for c in [Context::IfThenBlock, Context::IfThenStmt, Context::IfElseElseBlock, Context::IfElseBothStmt, Context::WhileBlock, Context::WhileStmt, Context::ForRangeBlock, Context::ForSetStmt, Context::Case, Context::Default, Context::GateBody, Context::DefBody] {
        v.push((format!("{:?}(assign)", c), text_of(&[c.wrap(a1.clone(), 1)])));
        if matches!(c, Context::IfThenStmt | Context::WhileStmt | Context::ForSetStmt | Context::IfElseBothStmt) {
            v.push((format!("{:?}(gatecall)", c), text_of(&[c.wrap(h.clone(), 2)])));
        }
    }
    v.push(("empty".into(), ";".into()));
    v.push(("annotation".into(), "@verif note\n".into()));
    v.push(("include".into(), "include \"stdgates.inc\";".into()));
    v.push(("pragma_empty".into(), "pragma \n".into()));
    v.push(("pragma_blank".into(), "pragma   \t\n".into()));
    v.push(("hash_pragma_empty".into(), "#pragma \n".into()));
    v.push(("comment_stars".into(), "/** doc **/ a;".into()));
    // line items whose last character could be taken for the start of something that goes on
    // (a continuation, a string, a comment, a block)
    for (n, t) in [
        ("pragma_backslash", "pragma layout dense \\\n"),
        ("hash_pragma_backslash", "#pragma a \\\n"),
        ("annotation_backslash", "@ann a \\\n"),
        ("pragma_quote", "pragma say \"\n"),
        ("annotation_comment_open", "@ann /*\n"),
        ("pragma_curly", "pragma {\n"),
        ("line_comment_backslash", "a; // c \\\n"),
    ] {
        v.push((n.into(), t.into()));
    }
    // the statement kinds of the grammar that the model does not print: calibration,
    // extern, arrays, old-style registers, durationof
    for (n, t) in [
        ("defcalgrammar", "defcalgrammar \"openpulse\";"),
        ("cal_body", "cal { a = 1; }"),
        ("cal_empty", "cal { }"),
        ("defcal_body", "defcal x $0 { h $0; }"),
        ("extern", "extern e1(int) -> int;"),
        ("array_decl", "array[int[8], 2] aa;"),
        ("qreg_decl", "qreg qq[2];"),
        ("creg_decl", "creg cr[2];"),
        ("durationof", "duration dd = durationof({ h r; });"),
    ] {
        v.push((n.into(), t.into()));
    }
    v.push(("version".into(), "OPENQASM 3.0;".into()));
    v.push(("version_major".into(), "OPENQASM 3;".into()));
    v.push(("return".into(), "return a;".into()));
    v.push(("return_void".into(), "return;".into()));
    v.push(("ident_stmt".into(), "a;".into()));
    v.push(("literal_stmt".into(), "1;".into()));
    v.push(("paren_stmt".into(), "(a);".into()));
    v.push(("cast_stmt".into(), "int(a);".into()));
    v.push(("neg_stmt".into(), "-a;".into()));
    v.push(("index_stmt".into(), "m[0];".into()));
    // statements that end with `}` without being a compound statement, and statements that
    // start with every kind of token an expression can start with
    v.push(("block_stmt".into(), "{ a = 1; }".into()));
    v.push(("block_gate".into(), "{ h r; }".into()));
    v.push(("block_empty".into(), "{ }".into()));
    v.push(("box_stmt".into(), "box { h r; }".into()));
    v.push(("box_designator".into(), "box [ 10 ns ] { h r; }".into()));
    v.push(("paren_binary_stmt".into(), "(a + b);".into()));
    v.push(("not_stmt".into(), "!a;".into()));
    v.push(("tilde_stmt".into(), "~a;".into()));
    v.push(("float_stmt".into(), "1.5;".into()));
    v.push(("bool_stmt".into(), "true;".into()));
    v.push(("bits_stmt".into(), "\"01\";".into()));
    v.push(("timing_stmt".into(), "10 ns;".into()));
    v.push(("hw_stmt".into(), "$0;".into()));
    v.push(("measure_arrow".into(), "measure r -> k;".into()));
    v.push(("call_stmt".into(), "f1(a, b);".into()));
    v.push(("set_stmt".into(), "{1, 2};".into()));
    v.push(("switch_both".into(), "switch (a) { case 1, 2 { a = 1; } default { a = 2; } }".into()));
    v
}

/// Block contexts whose empty instance parses cleanly: (name, prefix, suffix).
pub const BLOCK_CONTEXTS: &[(&str, &str, &str)] = &[
    ("file", "", ""),
    ("if", "if (a) { ", " }"),
    ("else", "if (a) { } else { ", " }"),
    ("while", "while (a) { ", " }"),
    ("for", "for int i in [0:1] { ", " }"),
    ("case", "switch (a) { case 1 { ", " } }"),
    ("default", "switch (a) { default { ", " } }"),
    ("gate", "gate w y { ", " }"),
    ("def", "def w() { ", " }"),
];

/// Description of one statement node: kind, non-trivia token texts, preorder kinds.
#[derive(Clone, PartialEq, Debug)]
struct Desc {
    kind: String,
    tokens: Vec<String>,
    shape: Vec<u16>,
    /// the node's own text, trivia included ("same text")
    text: String,
}

fn describe(n: &SyntaxNode) -> Desc {
    let mut tokens = Vec::new();
    let mut shape = Vec::new();
    for e in n.descendants_with_tokens() {
        match e {
            NodeOrToken::Token(t) => {
                if !t.kind().is_trivia() {
                    tokens.push(t.text().to_string());
                    shape.push(t.kind().into());
                }
            }
            NodeOrToken::Node(n) => shape.push(n.kind().into()),
        }
    }
    Desc { kind: format!("{:?}", n.kind()), tokens, shape, text: n.text().to_string() }
}

/// Statements of the innermost target block of the context (or of the file).
fn statements_in(ctx_name: &str, root: &SyntaxNode) -> Option<Vec<Desc>> {
    let sf = ast::SourceFile::cast(root.clone())?;
    if ctx_name == "file" {
        return Some(sf.statements().map(|s| describe(s.syntax())).collect());
    }
    let first = sf.statements().next()?;
    let block: ast::BlockExpr = match (ctx_name, first) {
        ("if", ast::Stmt::IfStmt(i)) => i.then_branch_block()?,
        ("else", ast::Stmt::IfStmt(i)) => i.else_branch_block()?,
        ("while", ast::Stmt::WhileStmt(w)) => w.body()?,
        ("for", ast::Stmt::ForStmt(f)) => f.body()?,
        ("case", ast::Stmt::SwitchCaseStmt(s)) => s.case_exprs().next()?.block_expr()?,
        ("default", ast::Stmt::SwitchCaseStmt(s)) => s.default_block()?,
        ("gate", ast::Stmt::Gate(g)) => g.body()?,
        ("def", ast::Stmt::Def(d)) => d.body()?,
        _ => return None,
    };
    Some(block.statements().map(|s| describe(s.syntax())).collect())
}

pub struct Seqs {
    pub pool: Vec<(String, String)>,
    pub clean: Vec<usize>,
    pub singles: Vec<Vec<Desc>>,
    pub ctx: usize,
    pub n: usize,
    /// what is written between two statements (a blank; comments in the joiner spaces)
    pub joiner: &'static str,
}

impl Seqs {
    pub fn new(ctx: usize, n: usize) -> Seqs {
        let pool = pool();
        let mut clean = Vec::new();
        let mut singles = Vec::new();
        for (i, (_, t)) in pool.iter().enumerate() {
            // C is decided by the implementation: the statement alone, at top level
            if let Ok(p) = subject::parse(t) {
                if p.errors().is_empty() {
                    if let Some(d) = statements_in("file", &p.syntax_node()) {
                        clean.push(i);
                        singles.push(d);
                    }
                }
            }
        }
        Seqs { pool, clean, singles, ctx, n, joiner: " " }
    }

    pub fn joined(ctx: usize, n: usize, joiner: &'static str) -> Seqs {
        let mut s = Seqs::new(ctx, n);
        s.joiner = joiner;
        s
    }

    fn check(&self, idx: &[usize], ctx: &mut Ctx) {
        self.check_labelled(idx, ctx, None)
    }

    /// `label`: (short witness, case) standing for a long repetitive sequence.
    fn check_labelled(&self, idx: &[usize], ctx: &mut Ctx, label: Option<(String, Value)>) {
        let (cname, pre, post) = BLOCK_CONTEXTS[self.ctx];
        let mut body = String::new();
        let mut starts = Vec::new();
        for (k, i) in idx.iter().enumerate() {
            if k > 0 {
                if self.joiner == " " {
                    if !body.ends_with('\n') {
                        body.push(' ');
                    }
                } else {
                    if !body.ends_with('\n') {
                        body.push(' ');
                    }
                    body.push_str(self.joiner);
                }
            }
            starts.push(pre.len() + body.len());
            body.push_str(&self.pool[self.clean[*i]].1);
        }
        let full_text = format!("{}{}{}", pre, body, post);
        let names: Vec<&str> = idx.iter().map(|i| self.pool[self.clean[*i]].0.as_str()).collect();
        let (text, case) = match label {
            Some((w, c)) => (w, c),
            None => (full_text.clone(), json!({"ctx": cname, "parts": names, "text": full_text})),
        };
        if !ctx.begin(|| case.clone()) {
            return;
        }
        // the part in which byte `off` lies, as "prev=<name> at=<name>"
        let at_part = |k: usize| -> String {
            let prev = if k == 0 { "START" } else { names[k - 1] };
            format!("{} prev={} at={}", cname, prev, names.get(k).copied().unwrap_or("END"))
        };
        let part_of_offset = |off: usize| -> usize { starts.iter().rposition(|s| *s <= off).unwrap_or(0) };
        let p = match subject::parse(&full_text) {
            Ok(p) => p,
            Err(_) => {
                ctx.count("skipped_not_returning", 1);
                return;
            }
        };
        if let Some(e) = p.errors().first() {
            ctx.fail(Failure {
                rule: "compositional".into(),
                witness: text.clone(),
                locus: format!("{} | {}", e.message(), at_part(part_of_offset(usize::from(e.range().start())))),
                detail: format!("each part parses without diagnostics, the concatenation reports `{}` at {:?}", e.message(), e.range()),
                case,
            });
            return;
        }
        let expected: Vec<Desc> = idx.iter().flat_map(|i| self.singles[*i].iter().cloned()).collect();
        let got = statements_in(cname, &p.syntax_node());
        match got {
            None => ctx.fail(Failure { rule: "compositional".into(), witness: text.clone(), locus: format!("block not found | {}", cname), detail: "the block context was not found in the tree".into(), case }),
            Some(got) => {
                let mut h = 0u64;
                for d in &got {
                    h = fnv_mix(h, fnv_str(&d.kind));
                }
                ctx.outcome(h);
                if idx.len() >= 2 && expected.len() >= 2 && expected[0].kind != expected[1].kind {
                    ctx.mark_nontrivial(fnv_str(&text));
                }
                if got != expected {
                    let k = got.iter().zip(expected.iter()).position(|(a, b)| a != b).unwrap_or(got.len().min(expected.len()));
                    let gk = got.get(k).map(|d| format!("{} `{}`", d.kind, d.tokens.join(" "))).unwrap_or("<none>".into());
                    let ek = expected.get(k).map(|d| format!("{} `{}`", d.kind, d.tokens.join(" "))).unwrap_or("<none>".into());
                    ctx.fail(Failure {
                        rule: "compositional".into(),
                        witness: text.clone(),
                        locus: format!("statement list differs | {}", at_part({
                            // map the index of the first differing statement to its part
                            let mut acc = 0;
                            let mut part = idx.len();
                            for (pi, i) in idx.iter().enumerate() {
                                acc += self.singles[*i].len();
                                if k < acc {
                                    part = pi;
                                    break;
                                }
                            }
                            part
                        })),
                        detail: format!("{} statements instead of {}; statement {} is {} but parses alone as {}", got.len(), expected.len(), k, gk, ek),
                        case,
                    });
                }
            }
        }
    }
}

impl Space for Seqs {
    fn name(&self) -> String {
        if self.joiner == " " {
            format!("STMT-SEQ/{}/len={}", BLOCK_CONTEXTS[self.ctx].0, self.n)
        } else {
            format!("STMT-SEQ/{}/len={}/joiner={:?}", BLOCK_CONTEXTS[self.ctx].0, self.n, self.joiner)
        }
    }
    fn describe(&self) -> Value {
        json!({"space": "STMT-SEQ", "context": BLOCK_CONTEXTS[self.ctx].0, "pool": self.pool.len(), "clean": self.clean.len(),
               "length": self.n, "sequences": (self.clean.len() as u64).pow(self.n as u32),
               "rejected_alone": self.pool.iter().enumerate().filter(|(i, _)| !self.clean.contains(i)).map(|(_, p)| p.0.clone()).collect::<Vec<_>>()})
    }
    fn num_blocks(&self) -> u64 {
        if self.n <= 1 {
            1
        } else {
            self.clean.len() as u64
        }
    }
    fn run_block(&self, block: u64, ctx: &mut Ctx) {
        let c = self.clean.len();
        if self.n == 0 {
            self.check(&[], ctx);
            return;
        }
        if self.n == 1 {
            for i in 0..c {
                self.check(&[i], ctx);
            }
            return;
        }
        let mut idx = vec![0usize; self.n];
        idx[0] = block as usize;
        'odo: loop {
            self.check(&idx, ctx);
            let mut p = self.n;
            loop {
                if p == 1 {
                    break 'odo;
                }
                p -= 1;
                idx[p] += 1;
                if idx[p] < c {
                    break;
                }
                idx[p] = 0;
            }
        }
    }
    fn block_timeout_s(&self) -> u64 {
        300
    }
    fn replay(&self, case: &Value, ctx: &mut Ctx) {
        let names: Vec<String> = case["parts"].as_array().map(|a| a.iter().filter_map(|v| v.as_str().map(|s| s.to_string())).collect()).unwrap_or_default();
        let mut idx = Vec::new();
        for n in &names {
            match self.clean.iter().position(|i| &self.pool[*i].0 == n) {
                Some(k) => idx.push(k),
                None => return, // the part no longer parses cleanly alone: the premise is gone
            }
        }
        self.check(&idx, ctx);
    }
}

/// Long repetitive sequences: N copies of one statement of the pool followed by one victim
/// statement, for N around powers of two (state that accumulates per statement).
pub struct Repeats {
    pub seqs: Seqs,
    pub counts: Vec<usize>,
}

const VICTIMS: &[&str] = &["ident_stmt", "assign_lit", "gate_call", "paren_binary_stmt", "decl_init_binary", "IfThenBlock(assign)"];

impl Repeats {
    fn run(&self, i: usize, n: usize, victim: &str, ctx: &mut Ctx) {
        let j = match self.seqs.clean.iter().position(|k| self.seqs.pool[*k].0 == victim) {
            Some(j) => j,
            None => return,
        };
        let mut idx = vec![i; n];
        idx.push(j);
        let rname = &self.seqs.pool[self.seqs.clean[i]].0;
        let w = format!("{} x `{}` then `{}` in {}", n, self.seqs.pool[self.seqs.clean[i]].1.trim_end(), self.seqs.pool[self.seqs.clean[j]].1, BLOCK_CONTEXTS[self.seqs.ctx].0);
        let case = json!({"repeat": rname, "n": n, "then": victim, "ctx": BLOCK_CONTEXTS[self.seqs.ctx].0});
        self.seqs.check_labelled(&idx, ctx, Some((w, case)));
    }
}

impl Space for Repeats {
    fn name(&self) -> String {
        format!("STMT-REPEAT/{}", BLOCK_CONTEXTS[self.seqs.ctx].0)
    }
    fn describe(&self) -> Value {
        json!({"space": "STMT-REPEAT", "context": BLOCK_CONTEXTS[self.seqs.ctx].0, "repeated": self.seqs.clean.len(), "counts": self.counts, "victims": VICTIMS})
    }
    fn num_blocks(&self) -> u64 {
        self.seqs.clean.len() as u64
    }
    fn run_block(&self, block: u64, ctx: &mut Ctx) {
        for n in &self.counts {
            for v in VICTIMS {
                self.run(block as usize, *n, v, ctx);
            }
        }
    }
    fn replay(&self, case: &Value, ctx: &mut Ctx) {
        let r = case["repeat"].as_str().unwrap_or("");
        let i = match self.seqs.clean.iter().position(|k| self.seqs.pool[*k].0 == r) {
            Some(i) => i,
            None => return,
        };
        self.run(i, case["n"].as_u64().unwrap_or(1) as usize, case["then"].as_str().unwrap_or(""), ctx);
    }
    fn block_timeout_s(&self) -> u64 {
        240
    }
}

pub fn spaces(tier: Tier, _seed: u64) -> Vec<Box<dyn Space>> {
    let mut v: Vec<Box<dyn Space>> = Vec::new();
    let counts: Vec<usize> = if tier.is_thorough() { vec![7, 8, 15, 16, 31, 32, 33, 63, 64, 65, 100, 127, 128, 129, 255, 256, 257, 511, 512, 513, 1000, 1023, 1024, 1025, 4096] } else { vec![8, 31, 32, 33, 63, 64, 65, 127, 128, 129, 255, 256, 257, 1024] };
    v.push(Box::new(Repeats { seqs: Seqs::new(0, 1), counts: counts.clone() }));
    v.push(Box::new(Repeats { seqs: Seqs::new(7, 1), counts: counts.clone() }));
    v.push(Box::new(Repeats { seqs: Seqs::new(1, 1), counts }));
    // comments between the statements: a trailing line comment, a comment line, a block comment
    for j in ["// c\n", "\n// c\n", "/* c */ ", "\n\n// c\n\n"] {
        for c in [0usize, 1, 7, 8] {
            v.push(Box::new(Seqs::joined(c, 2, j)));
        }
    }
    for c in 0..BLOCK_CONTEXTS.len() {
        v.push(Box::new(Seqs::new(c, 1)));
        v.push(Box::new(Seqs::new(c, 2)));
    }
    for c in 0..BLOCK_CONTEXTS.len() {
        v.push(Box::new(Seqs::new(c, 3)));
    }
    if tier.is_thorough() {
        v.push(Box::new(Seqs::new(0, 4)));
    }
    v
}
