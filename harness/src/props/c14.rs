//! C14 — tokens partition the input on character boundaries.

use crate::core::*;
use crate::props::Meta;
use crate::space::echar::{alphabets, EChar};
use oq3_lexer::{LiteralKind, TokenKind};
use oq3_parser::LexedStr;
use serde_json::{json, Value};

pub fn meta() -> Meta {
    Meta {
        level: "exploration",
        rule: "every string of at most k symbols over each of eleven 14-symbol alphabets of lexically critical atoms (E-CHAR) and every rendered token sequence of E-TOK, each enumerated exactly once; a case is non-trivial when the lexer yields at least two tokens of which at least one is neither whitespace nor unknown; distinct = distinct input strings (hash set), outcomes = distinct (kind,length) streams",
        assumptions: vec![
            "strings longer than the bound and characters outside the alphabets are not covered",
            "rustc/cargo, the harness itself",
        ],
    }
}

pub fn kind_code(k: &TokenKind) -> u32 {
    use TokenKind::*;
    match k {
        LineComment => 1,
        BlockComment { terminated } => 2 + *terminated as u32,
        Whitespace => 4,
        Ident => 5,
        HardwareIdent => 6,
        InvalidIdent => 7,
        OpenQasmVersionStmt { major, minor } => 8 + (*major as u32) * 2 + *minor as u32,
        Pragma => 12,
        Dim => 13,
        Annotation => 14,
        Literal { kind, .. } => match kind {
            LiteralKind::Int { base, empty_int } => 20 + (*base as u32) * 2 + *empty_int as u32,
            LiteralKind::Float { base, empty_exponent } => 60 + (*base as u32) * 2 + *empty_exponent as u32,
            LiteralKind::Byte { terminated } => 100 + *terminated as u32,
            LiteralKind::Str { terminated } => 102 + *terminated as u32,
            LiteralKind::BitStr { terminated, consecutive_underscores } => {
                104 + (*terminated as u32) * 2 + *consecutive_underscores as u32
            }
        },
        Semi => 110,
        Comma => 111,
        Dot => 112,
        OpenParen => 113,
        CloseParen => 114,
        OpenBrace => 115,
        CloseBrace => 116,
        OpenBracket => 117,
        CloseBracket => 118,
        At => 119,
        Pound => 120,
        Tilde => 121,
        Question => 122,
        Colon => 123,
        Dollar => 124,
        Eq => 125,
        Bang => 126,
        Lt => 127,
        Gt => 128,
        Minus => 129,
        And => 130,
        Or => 131,
        Plus => 132,
        Star => 133,
        Slash => 134,
        Caret => 135,
        Percent => 136,
        Unknown => 137,
        Eof => 138,
    }
}

/// The oracle of C14 on one text.
pub fn oracle(text: &str, ctx: &mut Ctx) {
    let cap = text.len() + 2;
    // (1) the raw token stream
    let run = |t: &str| -> Result<Vec<(u32, u32, u32)>, PanicInfo> {
        catch(|| {
            let mut v = Vec::new();
            for tok in oq3_lexer::tokenize(t) {
                let suffix = match tok.kind {
                    TokenKind::Literal { suffix_start, .. } => suffix_start,
                    _ => 0,
                };
                v.push((kind_code(&tok.kind), tok.len, suffix));
                if v.len() > cap {
                    break;
                }
            }
            v
        })
    };
    let toks = match run(text) {
        Ok(v) => v,
        Err(p) => {
            ctx.fail_text("partition", text, &p.locus(), format!("tokenize panicked: {}", p.message));
            return;
        }
    };
    if toks.len() > cap {
        ctx.fail_text("partition", text, "tokenize", "token stream is not finite (more tokens than bytes)".into());
        return;
    }
    let mut pos = 0usize;
    for (i, (k, len, suffix)) in toks.iter().enumerate() {
        if *len == 0 {
            ctx.fail_text("partition", text, "tokenize", format!("token {} (kind code {}) has zero length", i, k));
            return;
        }
        if suffix > len {
            ctx.fail_text("partition", text, "tokenize", format!("token {}: suffix_start {} exceeds length {}", i, suffix, len));
            return;
        }
        pos += *len as usize;
        if pos > text.len() || !text.is_char_boundary(pos) {
            ctx.fail_text("partition", text, "tokenize", format!("token {} ends at byte {} which is not a character boundary of the input", i, pos));
            return;
        }
    }
    if pos != text.len() {
        ctx.fail_text("partition", text, "tokenize", format!("token lengths sum to {} but the input has {} bytes", pos, text.len()));
        return;
    }
    // (2) determinism
    match run(text) {
        Ok(v2) if v2 == toks => {}
        Ok(_) => {
            ctx.fail_text("deterministic", text, "tokenize", "two runs gave different token streams".into());
            return;
        }
        Err(p) => {
            ctx.fail_text("deterministic", text, &p.locus(), "second run panicked".into());
            return;
        }
    }
    // (3) the parser-facing table
    let table = |t: &str| -> Result<(Vec<(u16, usize)>, usize, Vec<(usize, String)>, bool), PanicInfo> {
        catch(|| {
            let lexed = LexedStr::new(t);
            let n = lexed.len();
            let mut v = Vec::with_capacity(n);
            let mut ok = true;
            let mut rebuilt = 0usize;
            for i in 0..n {
                let k: u16 = lexed.kind(i).into();
                v.push((k, lexed.text_start(i)));
                let r = lexed.text_range(i);
                let s = lexed.text(i);
                ok &= s.len() == r.end - r.start && lexed.text_len(i) == s.len();
                rebuilt += s.len();
                if i + 1 <= n && i < n {
                    let _ = lexed.range_text(i..n);
                }
            }
            ok &= rebuilt == t.len();
            ok &= lexed.as_str() == t;
            ok &= lexed.is_empty() == (n == 0);
            let errs: Vec<(usize, String)> = lexed.errors().map(|(i, m)| (i, m.to_string())).collect();
            ok &= errs.is_empty() == lexed.errors_is_empty();
            (v, lexed.text_start(n), errs, ok)
        })
    };
    let (tab, end, errs, ok) = match table(text) {
        Ok(x) => x,
        Err(p) => {
            ctx.fail_text("table", text, &p.locus(), format!("building or slicing the token table panicked: {}", p.message));
            return;
        }
    };
    if !ok {
        ctx.fail_text("table", text, "LexedStr", "token table texts do not tile the input".into());
        return;
    }
    if end != text.len() {
        ctx.fail_text("table", text, "LexedStr", format!("final offset {} differs from the input length {}", end, text.len()));
        return;
    }
    if tab.len() != toks.len() {
        ctx.fail_text("table", text, "LexedStr", format!("table has {} entries but the lexer gave {} tokens", tab.len(), toks.len()));
        return;
    }
    let mut prev: Option<usize> = None;
    let mut expect = 0usize;
    for (i, (_, st)) in tab.iter().enumerate() {
        if let Some(p) = prev {
            if *st <= p {
                ctx.fail_text("table", text, "LexedStr", format!("start offsets not strictly increasing at entry {}", i));
                return;
            }
        }
        if *st != expect {
            ctx.fail_text("table", text, "LexedStr", format!("entry {} starts at {} but the preceding tokens end at {}", i, st, expect));
            return;
        }
        expect += toks[i].1 as usize;
        prev = Some(*st);
    }
    for (i, _) in &errs {
        if *i >= tab.len() {
            ctx.fail_text("table", text, "LexedStr", format!("lexical error refers to token {} of {}", i, tab.len()));
            return;
        }
    }
    match table(text) {
        Ok((t2, e2, er2, _)) if t2 == tab && e2 == end && er2 == errs => {}
        _ => {
            ctx.fail_text("deterministic", text, "LexedStr", "two runs gave different token tables or error lists".into());
            return;
        }
    }
    // bookkeeping
    let mut h = 0u64;
    let mut interesting = false;
    for (k, len, _) in &toks {
        h = fnv_mix(h, (*k as u64) << 32 | *len as u64);
        if *k != 4 && *k != 137 {
            interesting = true;
        }
    }
    ctx.outcome(h);
    if toks.len() >= 2 && interesting {
        ctx.mark_nontrivial(fnv_str(text));
    }
}

pub struct C14Chars {
    pub e: EChar,
}

impl Space for C14Chars {
    fn name(&self) -> String {
        format!("E-CHAR/{}/len<={}", self.e.alpha.id, self.e.max_len)
    }
    fn describe(&self) -> Value {
        self.e.describe()
    }
    fn num_blocks(&self) -> u64 {
        self.e.num_blocks()
    }
    fn run_block(&self, block: u64, ctx: &mut Ctx) {
        self.e.block(block, &mut |t| {
            if ctx.begin(|| json!({"text": t})) {
                oracle(t, ctx);
            }
        });
    }
    fn replay(&self, case: &Value, ctx: &mut Ctx) {
        if let Some(t) = case["text"].as_str() {
            ctx.begin(|| json!({"text": t}));
            oracle(t, ctx);
        }
    }
}

pub fn spaces(tier: Tier, _seed: u64) -> Vec<Box<dyn Space>> {
    let mut v: Vec<Box<dyn Space>> = Vec::new();
    for a in alphabets() {
        let long = a.id == "A-num" || a.id == "A-str";
        let max_len = match tier {
            Tier::Quick => 5,
            Tier::Thorough => {
                if long {
                    7
                } else {
                    6
                }
            }
        };
        v.push(Box::new(C14Chars { e: EChar { alpha: a, max_len } }));
    }
    // rendered token sequences over the full token alphabet (with malformed variants)
    v.push(crate::props::c01::tok_space(true, 3, crate::space::etok::Render::Spaced, oracle));
    v.push(crate::props::c01::tok_space(true, if tier.is_thorough() { 3 } else { 2 }, crate::space::etok::Render::Tight, oracle));
    v
}
