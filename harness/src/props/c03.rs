//! C03 — semantic analysis returns normally on every syntax-error-free program.

use crate::core::*;
use crate::model::gen::*;
use crate::model::prog::*;
use crate::model::{ProgCase, ProgSpace};
use crate::props::Meta;
use crate::space::etok::Render;
use crate::subject;
use oq3_semantics::syntax_to_semantics::parse_source_string;
use serde_json::json;

pub fn meta() -> Meta {
    Meta {
        level: "exploration",
        rule: "(a) every token sequence of at most L tokens over the full token alphabet that happens to parse without diagnostics; (b) the wider grammar: every leaf template (including constructs the analyser does not support: all operators, literal kinds, anonymous blocks, box, arrays, extern, defcal, cal, old-style declarations, hardware qubits) in spines of k contexts with and without the declarations it needs; (c) semantic single faults, exhaustive over sites: one declaration of the prelude deleted, duplicated or retyped to each other type, one gate call with one argument or operand more or less, every global-only statement inside every scope kind; each program enumerated once; only programs the implementation parses without diagnostics are judged; non-trivial = analysis ran and produced at least one statement; outcomes = distinct (statement count, diagnostic kinds) observations",
        assumptions: vec![
            "'parses without diagnostics' is decided by the implementation (parse_check_lex), so acceptance defects (C04) do not leak in",
            "hook oq3_verif: SymbolTable::verif_scope_depth",
        ],
    }
}

/// Run the analysis of `text`; report a failure unless it returns normally with the scope
/// stack back at the global scope.  Returns the observation hash, or None if not judged.
pub fn analyse(text: &str, tag: &str, case: serde_json::Value, ctx: &mut Ctx) -> Option<u64> {
    let p = match subject::parse_check_lex(text) {
        Ok(p) => p,
        Err(_) => {
            ctx.count("skipped_not_returning", 1);
            return None;
        }
    };
    if !p.errors().is_empty() {
        ctx.count("skipped_syntax_diagnostics", 1);
        return None;
    }
    let r = catch(|| {
        let res = parse_source_string(text, None);
        let depth = res.symbol_table().verif_scope_depth();
        let kinds: Vec<String> = res.semantic_errors().iter().map(|e| format!("{:?}", e.kind())).collect();
        (res.any_syntax_errors(), res.program().stmts().len(), depth, kinds)
    });
    match r {
        Err(pi) => {
            ctx.fail(Failure {
                rule: "returns_normally".into(),
                witness: text.to_string(),
                locus: format!("{} | {}", pi.locus(), tag),
                detail: format!("semantic analysis panicked at {}:{}: {}", pi.file, pi.line, pi.message.lines().next().unwrap_or("")),
                case,
            });
            None
        }
        Ok((any_syn, nstmts, depth, kinds)) => {
            if any_syn {
                ctx.count("skipped_syntax_diagnostics", 1);
                return None;
            }
            if depth != 1 {
                ctx.fail(Failure {
                    rule: "scope_stack_restored".into(),
                    witness: text.to_string(),
                    locus: format!("depth {} | {}", depth, tag),
                    detail: format!("after analysis {} scopes are open instead of only the global scope", depth),
                    case,
                });
            }
            let mut h = fnv_mix(nstmts.min(8) as u64, depth as u64);
            for k in &kinds {
                h = fnv_mix(h, fnv_str(k));
            }
            ctx.outcome(h);
            if nstmts >= 1 {
                ctx.mark_nontrivial(fnv_str(text));
            }
            Some(h)
        }
    }
}

fn text_oracle(text: &str, ctx: &mut Ctx) {
    analyse(text, "token-soup", json!({"text": text}), ctx);
}

fn prog_oracle(case: &ProgCase, index: u64, ctx: &mut Ctx) {
    let text = text_of(&case.stmts);
    if analyse(&text, &case.tag, json!({"index": index, "text": text}), ctx).is_none() {
        return;
    }
    // the same program with a comment in every gap between two tokens: where the plain layout
    // is analysed normally, so must this one be (trivia is not part of the program)
    let toks = print_program(&case.stmts, Parens::Minimal);
    for sep in ["/*c*/", "//c\n"] {
        let ctext = layout_uniform(&toks, sep);
        ctx.count("commented_layout_texts", 1);
        let t2 = ctext.clone();
        if let Err(pi) = catch(move || parse_source_string(t2.as_str(), None).any_syntax_errors()) {
            ctx.fail(Failure {
                rule: "returns_normally".into(),
                witness: ctext.clone(),
                locus: format!("{} | commented layout | {}", pi.locus(), case.tag),
                detail: format!("semantic analysis panicked at {}:{}: {} (the same program laid out with blanks is analysed normally)", pi.file, pi.line, pi.message.lines().next().unwrap_or("")),
                case: json!({"index": index, "text": ctext}),
            });
        }
    }
}

/// Raw statement texts of the wider grammar (constructs outside the claimed grammar of C04,
/// or that the analyser does not support).
pub fn wider_texts() -> Vec<(&'static str, String)> {
    let mut v: Vec<(&'static str, String)> = Vec::new();
    for op in BINOPS {
        v.push(("binop_decl", format!("int w1 = a {} b;", op.text())));
        v.push(("binop_stmt", format!("a {} b;", op.text())));
        v.push(("binop_cond", format!("if (a {} b) {{ }}", op.text())));
        v.push(("binop_float", format!("float w2 = f {} 1.5;", op.text())));
        v.push(("binop_qubit", format!("r {} a;", op.text())));
    }
    for u in UNOPS {
        v.push(("unop_decl", format!("int w1 = {}a;", u.text())));
        v.push(("unop_lit", format!("int w1 = {}3;", u.text())));
        v.push(("unop_bool", format!("bool w1 = {}true;", u.text())));
        v.push(("unop_timing", format!("duration w1 = {}3ns;", u.text())));
        v.push(("unop_float", format!("float w1 = {}1.5;", u.text())));
        v.push(("unop_imag", format!("complex w1 = {}2im;", u.text())));
        v.push(("unop_paren", format!("int w1 = {}(a + b);", u.text())));
        v.push(("unop_stmt", format!("{}a;", u.text())));
    }
    for t in [
        "a += 1;", "a -= 1;", "a *= 2;", "a /= 2;", "a %= 2;", "a <<= 1;", "a >>= 1;", "a &= 1;", "a |= 1;", "a ^= 1;", "m[0] += 1;",
        "{ }", "{ a = 1; }", "{ int w1; { w1 = 2; } }", "box { h r; }", "box [10ns] { h r; }", "box;",
        "array[int[8], 4] w1;", "array[int[8], 2, 2] w1 = {{1, 2}, {3, 4}};", "array[float[32], 3] w1 = {1.0, 2.0, 3.0};",
        "extern w1(int[8]) -> int[8];", "extern w1() -> bit;", "extern w1(float[32], int) -> float[32];",
        "defcal w1 $0 { }", "defcal w1(angle[20] th) $0, $1 -> bit { }", "cal { }", "cal { int w1; }", "defcalgrammar \"openpulse\";",
        "qreg w1[2];", "creg w1[2];", "qreg w1;", "creg w1;",
        "qubit $0;", "h $0;", "cx $0, $1;", "reset $0;", "bit w1 = measure $0;", "measure $0;", "barrier $0, $1;", "delay[10ns] $0;", "let w1 = $0;",
        "1;", "1.5;", "true;", "\"0101\";", "10ns;", "2.5us;", "3µs;", "1ms;", "4s;", "5dt;", "2im;", "2.5im;", "0b101;", "0xFF;", "0o17;", "1_000;", "1e3;", ".5;", "5.;",
        "340282366920938463463374607431768211455;", "340282366920938463463374607431768211456;", "0b2;", "0o9;", "0xg;", "1e400;", "0B;", "0X_;", "0O;", "0B2;", "0XG;",
        "int[8] w1 = 340282366920938463463374607431768211456;",
        "a;", "r;", "q[0];", "q[0:1];", "m[{0, 1}];", "m[0][1];", "a[0];", "f1;", "g1;", "pi;", "U;",
        "f1(a, b);", "f1(a);", "f1();", "f1(a, b, c);", "nosuch(1);", "nosuch();", "a(1);", "r(1);", "g1(1);", "3(1);", "f1(f1(a, b), c);",
        "g1 r;", "g1 a;", "g1 nosuch;", "nosuch r;", "a r;", "f1 r;", "h r, r;", "h;", "rx r;", "rx(1, 2) r;", "U r;", "h q;", "cx q, r;",
        "include \"./stdgates.inc\";", "include \"qelib/stdgates.inc\";", "include \"nosuch.inc\";", "include \"nosuch.inc\"; include \"nosuch2.inc\";", "OPENQASM 3.0;", "OPENQASM 3;", "OPENQASM 2.0;", "include \"stdgates.inc\";", "inv @ h;", "pow(2) @ h;", "ctrl @ x;", "negctrl(2) @ inv @ x;", "inv @ nosuch;", "inv @ a;", "rx(0.5);", "gphase(0.5);", "gphase(a);", "gphase();", "inv @ gphase(0.5);", "pow(2) @ inv @ h r;", "ctrl(a) @ x q[0], q[1];", "negctrl @ x r, q[0];", "pow(r) @ h r;",
        "barrier;", "barrier a;", "barrier nosuch;", "reset a;", "reset nosuch;", "reset q;", "delay[a] r;", "delay[1] r;", "delay[d];", "delay[nosuch] r;", "delay[10ns] a;",
        "measure a;", "measure nosuch;", "measure q[0:1];", "a = measure r;", "m = measure r;", "k = measure q;", "bit[2] w1 = measure q;",
        "int[8] w1 = 1; int[8] w1 = 2;", "const int w1 = 1; const int w1 = 2;", "const int w1 = 1; w1 = 2;", "const int w1; ", "const int w1 = a;",
        "int[a] w1;", "int[nosuch] w1;", "int[2+1] w1;", "int[-1] w1;", "int[1.5] w1;", "int[true] w1;", "int[\"01\"] w1;", "int[0] w1;", "int[4294967296] w1;", "int[4294967297] w1;",
        "const int w0 = 3; int[w0] w1;", "const int[128] w0 = 3; int[w0] w1;", "const uint w0 = 3; int[w0] w1;", "const int w0 = 2; const int w9 = w0; int[w9] w1;", "const float w0 = 2.0; int[w0] w1;",
        "const int w0 = -1; int[w0] w1;", "const int w0 = 5000000000; int[w0] w1;", "const int w0 = 1 + 2; int[w0] w1;", "input int w0; int[w0] w1;",
        "qubit[a] w1;", "qubit[nosuch] w1;", "qubit[0] w1;", "qubit[-1] w1;", "qubit[4294967297] w1;", "const int w0 = 2; qubit[w0] w1;", "bit[a] w1;", "bit[4294967297] w1;",
        "complex[float[a]] w1;", "complex[float[64]] w1 = 1.0 + 2.0im;", "angle[a] w1;", "float[nosuch] w1;", "uint[a] w1 = 1;",
        "for int w1 in [0:a] { }", "for int w1 in [0:1:a] { }", "for int w1 in a { }", "for int w1 in {1, 2} { }", "for int w1 in nosuch { }", "for int[a] w1 in [0:1] { }", "for qubit w1 in [0:1] { }",
        "for uint w1 in [0:3] w1;", "for int w1 in [0:3] int w1 = 2;", "while (a) a;", "while (nosuch) { }", "while (r) { }", "while (1.5) break;",
        "if (a) a; else b;", "if (nosuch) { }", "if (r) { }", "if (a) int w1 = 1; else int w1 = 2;", "if (a) if (b) c; else a;",
        "switch (a) { }", "switch (a) { default { } }", "switch (a) { case 1 { } case 1 { } }", "switch (nosuch) { case 1 { } }", "switch (a) { case nosuch { } }", "switch (r) { case 1 { } }", "switch (a) { case 1.5 { } }", "switch (a) { case 1, 2, 3 { a; } default { b; } }",
        "return;", "return a;", "return nosuch;", "return measure r;", "def w1() { return; }", "def w1() -> int { return; }", "def w1() -> int { }", "def w1() { return 1; }",
        "def w1(int a) { a; }", "def w1(int w2, int w2) { }", "def w1(qubit w2) { h w2; }", "def w1(qubit[2] w2) { h w2[0]; }", "def w1(bit[4] w2) -> bit[4] { return w2; }",
        "def w1(readonly array[int[8], 2] w2) { }", "def w1(mutable array[int[8], #dim = 1] w2) { }", "def w1(creg w2[2]) { }", "def w1(qreg w2[2]) { }", "def w1(complex[float[64]] w2) -> complex[float[64]] { return w2; }",
        "def w1() { def w2() { } }", "def w1() { gate w2 w3 { } }", "def w1() { qubit w2; }", "def w1() { w1(); }", "def w1(int w2) -> int { return w1(w2); }",
        "gate w1 w2 { w1 w2; }", "gate w1 w2 { h w3; }", "gate w1 w2, w2 { }", "gate w1(w2, w2) w3 { }", "gate w1(w2) w2 { }", "gate w1 w2 { int w3; }", "gate w1 w2 { measure w2; }", "gate w1 w2 { reset w2; }",
        "gate w1 w2 { gate w3 w4 { } }", "gate w1 w2 { def w3() { } }", "gate w1 w2 { qubit w3; }", "gate w1(w2) w3 { rx(w2) w3; rx(w2 + 1) w3; }", "gate w1 w2 { if (a) h w2; }", "gate w1 w2 { return; }",
        "gate h w1 { }", "gate U w1 { }", "gate pi w1 { }", "int pi;", "int U;", "int h;", "qubit h;", "def h() { }", "const float pi = 3.0;", "let h = r;",
        "let w1 = q;", "let w1 = q[0:1];", "let w1 = q[0:1] ++ q[2:3];", "let w1 = a;", "let w1 = nosuch;", "let w1 = 1;", "let q = r;",
        "input int w1; output int w1;", "input qubit w1;", "input array[int[8], 2] w1;", "output bit[4] w1;", "input angle[20] w1;",
        "include \"stdgates.inc\";", "include \"nosuch_file.inc\";", "if (a) { include \"stdgates.inc\"; }", "def w1() { include \"stdgates.inc\"; }",
        "pragma hello", "#pragma hello", "@ann x\nint w1;", "@a\n@b\nh r;", "@a\nif (a) { @b\nh r; }", "@a\n", "@a\npragma x\n", "@a\ninclude \"stdgates.inc\";", "@a\n@b\n@c\ngate w1 w2 { }",
        "OPENQASM 3.0;", "OPENQASM 3;", "int w1; OPENQASM 3.0;", "end;", "break;", "continue;", "if (a) end;",
        "a = b;", "a = 1.5;", "a = true;", "a = \"01\";", "a = 10ns;", "a = r;", "a = nosuch;", "nosuch = 1;", "r = 1;", "g1 = 1;", "f1 = 1;", "pi = 3;", "m = \"0101\";", "m[0] = 1;", "m[0:1] = \"01\";", "m[0][1] = 1;", "m[{0,1}] = 1;", "a[0] = 1;", "nosuch[0] = 1;", "q[0] = 1;",
        "u = -1;", "u = 1;", "uint w1 = -1;", "d = 5ns;", "d = 1;", "t = 0.5;", "f = 1;", "f = 2im;", "k = 1;", "k = true;", "bool w1 = 1;", "bool w1 = a;",
        "int w1 = int(f);", "int w1 = int[8](f);", "float w1 = float(a);", "bit w1 = bit(a);", "bool w1 = bool(a);", "int w1 = int(r);", "int w1 = int(nosuch);", "duration w1 = duration(a);", "complex w1 = complex(a);", "angle[8] w1 = angle[8](f);",
        "int w1 = a[0];", "int w1 = m[0];", "bit w1 = m[0];", "int w1 = q[0];", "int w1 = (a);", "int w1 = ((a + b));", "int w1 = f1(a, b) + 1;", "float w1 = pi / 2;", "float w1 = 2 * π;", "float w1 = τ + ℇ;",
        "stretch w1; delay[w1] r;", "stretch w1 = 10ns;", "duration w1 = 2 * 5ns;", "duration w1 = d + d;", "duration w1 = durationof({h r;});",
    ] {
        v.push(("wider", t.to_string()));
    }
    // every lexeme spelling where the grammar takes it (also spellings the lexer accepts
    // beyond the official grammar, e.g. hardware qubits with digit separators)
    for (t, _) in crate::props::c15::lexeme_context_texts() {
        v.push(("lexeme_in_context", t.replace('¤', " ")));
    }
    v
}

fn wider_space(with_prelude: bool, ctx_depth: usize) -> Box<dyn Space> {
    let texts = wider_texts();
    let n = texts.len() as u64;
    let nc = CONTEXTS.len() as u64;
    let count = n * nc.pow(ctx_depth as u32);
    let name = format!("WIDER/k={}{}", ctx_depth, if with_prelude { "/prelude" } else { "" });
    let desc = json!({"space": "wider grammar", "statements": n, "k": ctx_depth, "prelude": with_prelude});
    let pre = if with_prelude { text_of(&prelude()) } else { String::new() };
    Box::new(TextProg { name, count, desc, gen: Box::new(move |i| {
        let ti = (i % n) as usize;
        let mut rest = i / n;
        let (tag, body) = &texts[ti];
        let mut text = body.clone();
        let mut cs = Vec::new();
        for lvl in 0..ctx_depth {
            let c = CONTEXTS[(rest % nc) as usize];
            rest /= nc;
            cs.push(c);
            text = wrap_text(c, &text, (ctx_depth - lvl) as u32);
        }
        (format!("{} {}", pre, text), format!("wider{:?}/{}", cs, tag))
    }) })
}

/// Every ordered pair of the wider statements at top level (state left behind by one statement
/// and met by the next: symbols, pending annotations, version, constants).
fn wider_pairs(with_prelude: bool) -> Box<dyn Space> {
    let texts = wider_texts();
    let n = texts.len() as u64;
    let name = format!("WIDER/pairs{}", if with_prelude { "/prelude" } else { "" });
    let desc = json!({"space": "wider grammar, ordered pairs", "statements": n, "prelude": with_prelude});
    let pre = if with_prelude { text_of(&prelude()) } else { String::new() };
    Box::new(TextProg { name, count: n * n, desc, gen: Box::new(move |i| {
        let (a, b) = (&texts[(i / n) as usize], &texts[(i % n) as usize]);
        let sep = if a.1.ends_with('\n') { "" } else { " " };
        (format!("{} {}{}{}", pre, a.1, sep, b.1), format!("pair/{}+{}", a.0, b.0))
    }) })
}

/// Textual version of `Context::wrap` for statements given as raw text.
fn wrap_text(c: Context, inner: &str, uniq: u32) -> String {
    use Context::*;
    let single_ok = !inner.trim_end().contains('\n') && inner.matches(';').count() <= 1 && !inner.starts_with('@');
    let blk = format!("{{ {} }}", inner);
    let one = if single_ok { inner.to_string() } else { blk.clone() };
    match c {
        IfThenBlock => format!("if (a == {}) {{ a = 101; {} a = 102; }}", uniq, inner),
        IfThenStmt => format!("if (a == {}) {}", uniq, one),
        IfElseThenBlock => format!("if (a == {}) {} else {{ a = 103; }}", uniq, blk),
        IfElseThenStmt => format!("if (a == {}) {} else {{ a = 103; }}", uniq, blk),
        IfElseElseBlock => format!("if (a == {}) a = 104; else {{ a = 105; {} }}", uniq, inner),
        IfElseElseStmt => format!("if (a == {}) {{ a = 104; }} else {}", uniq, one),
        IfElseBothStmt => format!("if (a == {}) a = 106; else {}", uniq, one),
        IfElseThenBothStmt => format!("if (a == {}) {} else a = 113;", uniq, blk),
        WhileBlock => format!("while (a == {}) {{ {} a = 107; }}", uniq, inner),
        WhileStmt => format!("while (a == {}) {}", uniq, one),
        ForRangeBlock => format!("for int i{} in [0:2:8] {}", uniq, blk),
        ForSetStmt => format!("for uint[8] i{} in {{1, 2, 3}} {}", uniq, one),
        ForExprBlock => format!("for bit i{} in m {{ a = 108; {} }}", uniq, inner),
        Case => format!("switch (a) {{ case 1, 2 {{ a = 109; }} case 3 {} default {{ a = 110; }} }}", blk),
        Default => format!("switch (a) {{ case 1 {{ a = 111; }} default {{ {} a = 112; }} }}", inner),
        GateBody => format!("gate w{}x(th{}) y{} {}", uniq, uniq, uniq, blk),
        DefBody => format!("def w{}x(int z{}) {{ {} return; }}", uniq, uniq, inner),
    }
}

pub struct TextProg {
    pub name: String,
    pub count: u64,
    pub desc: serde_json::Value,
    pub gen: Box<dyn Fn(u64) -> (String, String) + Send + Sync>,
}

impl Space for TextProg {
    fn name(&self) -> String {
        self.name.clone()
    }
    fn describe(&self) -> serde_json::Value {
        let mut d = self.desc.clone();
        d["programs"] = json!(self.count);
        d
    }
    fn num_blocks(&self) -> u64 {
        ((self.count + 63) / 64).max(1)
    }
    fn run_block(&self, block: u64, ctx: &mut Ctx) {
        let lo = block * 64;
        let hi = (lo + 64).min(self.count);
        for i in lo..hi {
            let (text, tag) = (self.gen)(i);
            if ctx.begin(|| json!({"index": i, "tag": tag, "text": text})) {
                analyse(&text, &tag, json!({"index": i, "text": text}), ctx);
            }
        }
    }
    fn replay(&self, case: &serde_json::Value, ctx: &mut Ctx) {
        if let Some(i) = case["index"].as_u64() {
            let (text, tag) = (self.gen)(i);
            ctx.begin(|| case.clone());
            analyse(&text, &tag, json!({"index": i, "text": text}), ctx);
        }
    }
    fn block_timeout_s(&self) -> u64 {
        120
    }
}

/// Semantic single faults on `prelude + leaf`: deletion / duplication / retyping of one
/// prelude declaration, exhaustive over sites.
pub fn fault_space(oracle: fn(&ProgCase, u64, &mut Ctx)) -> Box<dyn Space> {
    let types: Vec<Ty> = vec![Ty::plain("int"), Ty::w("uint", 8), Ty::w("float", 64), Ty::plain("bit"), Ty::w("bit", 4), Ty::plain("bool"), Ty::plain("duration"), Ty::w("angle", 20), Ty::plain("complex"), Ty::plain("stretch")];
    let npre = prelude().len() as u64;
    let nl = leaves().len() as u64;
    let nfaults = npre * (2 + types.len() as u64 + 2);
    let count = nfaults * nl;
    let desc = json!({"space": "semantic single faults", "sites": npre, "faults_per_site": 2 + types.len() + 2, "leaves": nl});
    let gen = move |i: u64| -> Option<ProgCase> {
        let li = (i % nl) as usize;
        let f = i / nl;
        let site = (f % npre) as usize;
        let kind = (f / npre) as usize;
        let mut pre = prelude();
        let tag;
        match kind {
            0 => {
                pre.remove(site);
                tag = format!("fault=delete[{}]", site);
            }
            1 => {
                let d = pre[site].clone();
                pre.insert(site + 1, d);
                tag = format!("fault=duplicate[{}]", site);
            }
            k if k < 2 + types.len() => {
                let t = types[k - 2].clone();
                let name = match &pre[site] {
                    Stmt::Decl { name, .. } | Stmt::Qubit { name, .. } | Stmt::Gate { name, .. } | Stmt::Def { name, .. } => name.clone(),
                    _ => return None,
                };
                pre[site] = Stmt::Decl { konst: false, ty: t.clone(), name, init: None };
                tag = format!("fault=retype[{}]->{}", site, t.base);
            }
            k if k == 2 + types.len() => {
                // turn the declaration into a qubit declaration of the same name
                let name = match &pre[site] {
                    Stmt::Decl { name, .. } | Stmt::Gate { name, .. } | Stmt::Def { name, .. } => name.clone(),
                    _ => return None,
                };
                pre[site] = Stmt::Qubit { size: None, name };
                tag = format!("fault=requbit[{}]", site);
            }
            _ => {
                // make it const (with an initializer where one is needed)
                match &mut pre[site] {
                    Stmt::Decl { konst, init, ty, .. } => {
                        *konst = true;
                        if init.is_none() {
                            *init = Some(if ty.base == "float" { Expr::Float("1.5".into()) } else if ty.base == "bit" && ty.width.is_some() { Expr::Bits("\"0101\"".into()) } else { int(1) });
                        }
                    }
                    _ => return None,
                }
                tag = format!("fault=const[{}]", site);
            }
        }
        let leaf = &leaves()[li];
        let mut stmts = pre;
        stmts.push(leaf.stmt.clone());
        Some(ProgCase { stmts, tag: format!("{}/leaf={}", tag, leaf.name) })
    };
    Box::new(ProgSpace { name: "FAULTS/prelude".into(), count, per_block: 64, gen: Box::new(gen), oracle, desc, timeout_s: 120 })
}

/// Gate / subroutine calls with one argument or one operand more or less.
fn arity_space() -> Box<dyn Space> {
    let mut texts: Vec<String> = Vec::new();
    let gates = [("h", 0, 1), ("x", 0, 1), ("rx", 1, 1), ("cx", 0, 2), ("cp", 1, 2), ("cu", 4, 2), ("ccx", 0, 3), ("U", 3, 1), ("u2", 2, 1), ("g1", 0, 1), ("g2", 2, 2), ("nosuch", 1, 1)];
    for (g, np, nq) in gates {
        for p in 0..=5usize {
            for q in 1..=4usize {
                if (p as i64 - np as i64).abs() > 1 && (q as i64 - nq as i64).abs() > 1 {
                    continue;
                }
                for m in ["", "inv @ ", "pow(2) @ ", "ctrl @ ", "negctrl(2) @ "] {
                    let args = if p == 0 { String::new() } else { format!("({})", vec!["0.5"; p].join(", ")) };
                    let ops: Vec<String> = (0..q).map(|i| format!("q[{}]", i)).collect();
                    texts.push(format!("{}{}{} {};", m, g, args, ops.join(", ")));
                }
            }
        }
    }
    for n in 0..=4usize {
        let args: Vec<String> = (0..n).map(|i| format!("{}", i)).collect();
        texts.push(format!("f1({});", args.join(", ")));
        texts.push(format!("int w1 = f1({});", args.join(", ")));
        texts.push(format!("a = f1({});", args.join(", ")));
    }
    let n = texts.len() as u64;
    let pre = text_of(&prelude());
    Box::new(TextProg { name: "FAULTS/arity".into(), count: n, desc: json!({"space": "call arity faults", "calls": n}), gen: Box::new(move |i| (format!("{} {}", pre, texts[i as usize]), "fault=arity".to_string())) })
}

pub fn spaces(tier: Tier, _seed: u64) -> Vec<Box<dyn Space>> {
    let mut v: Vec<Box<dyn Space>> = Vec::new();
    v.push(wider_space(true, 0));
    v.push(wider_space(false, 0));
    v.push(wider_space(true, 1));
    v.push(wider_pairs(true));
    v.push(crate::props::gprog::spines(0, false, true, false, prog_oracle));
    v.push(crate::props::gprog::spines(1, false, true, false, prog_oracle));
    v.push(crate::props::gprog::spines(1, false, false, false, prog_oracle));
    v.push(crate::props::gprog::grid(0, true, false, prog_oracle));
    v.push(crate::props::gprog::grid(1, true, false, prog_oracle));
    v.push(crate::props::gprog::grid(0, false, false, prog_oracle));
    v.push(fault_space(prog_oracle));
    v.push(arity_space());
    // programs spread over files: include chains (the no-panic part of C18's chain oracle)
    v.push(Box::new(crate::props::c18::Chains { max_depth: if tier.is_thorough() { 70 } else { 20 } }));
    v.push(crate::props::c01::tok_space(true, 3, Render::Spaced, text_oracle));
    v.push(wider_space(false, 1));
    v.push(crate::props::gprog::spines(2, false, true, false, prog_oracle));
    v.push(crate::props::gprog::sequences(2, true, false, prog_oracle));
    if tier.is_thorough() {
        v.push(wider_space(true, 2));
        v.push(crate::props::gprog::grid(2, true, false, prog_oracle));
        v.push(crate::props::gprog::spines(3, false, true, false, prog_oracle));
        v.push(crate::props::c01::tok_space(false, 4, Render::Spaced, text_oracle));
    }
    v
}
