//! C02 — the syntax tree is lossless: its leaves spell the input byte-for-byte.

use crate::core::*;
use crate::props::{c01, Meta};
use crate::subject;

pub fn meta() -> Meta {
    Meta {
        level: "exploration",
        rule: "the text-level spaces of C01 (E-CHAR over five critical alphabets, E-TOK over the full token alphabet in spaced and tight renderings) plus the scaling families and the layout variants of the generated programs; each input enumerated once; non-trivial = the tree has at least one statement node and at least one trivia token; outcomes = distinct tree shapes",
        assumptions: vec![
            "inputs on which parsing does not return are C01's business and are skipped here (counted as skipped_not_returning)",
            "rowan's text ranges are trusted to be those of the green tree",
        ],
    }
}

pub fn oracle(text: &str, ctx: &mut Ctx) {
    match subject::parse(text) {
        Err(_) => ctx.count("skipped_not_returning", 1),
        Ok(parse) => {
            let root = parse.syntax_node();
            if let Err(m) = subject::check_lossless(&root, text) {
                ctx.fail_text("lossless", text, "SourceFile::parse", m);
            }
            ctx.outcome(subject::tree_hash(&root));
            if subject::count_statements(&root) >= 1 && text.contains(|c: char| c == ' ' || c == '\n' || c == '/') {
                ctx.mark_nontrivial(fnv_str(text));
            }
        }
    }
    match subject::parse_check_lex(text) {
        Err(_) => ctx.count("skipped_not_returning_check_lex", 1),
        Ok(p) => {
            if p.have_parse() {
                ctx.count("check_lex_trees", 1);
                let root = p.syntax_node();
                if let Err(m) = subject::check_lossless(&root, text) {
                    ctx.fail_text("lossless", text, "SourceFile::parse_check_lex", m);
                }
            }
        }
    }
}

fn fault_oracle(case: &crate::model::ProgCase, index: u64, ctx: &mut Ctx) {
    // the replay regenerates the program from its index and runs all its faults again
    ctx.case_extra = Some(serde_json::json!({ "index": index }));
    crate::props::gprog::for_each_fault(case, &mut |t| {
        ctx.count("program_layouts_and_single_faults", 1);
        oracle(t, ctx)
    });
    ctx.case_extra = None;
}

pub fn spaces(tier: Tier, _seed: u64) -> Vec<Box<dyn Space>> {
    let mut v = c01::text_spaces(tier, oracle);
    v.push(crate::props::gprog::fault_programs(0, fault_oracle));
    v.push(crate::space::TextSpace::list("PREFIXES/long-program", crate::props::gprog::prefix_texts(), 32, oracle));
    if tier.is_thorough() {
        v.push(crate::props::gprog::fault_programs(1, fault_oracle));
    }
    // scaling families as plain texts
    let fams = c01::scale_families();
    let mut texts = Vec::new();
    for (_, nesting, gen) in &fams {
        let max = if *nesting { if tier.is_thorough() { 256 } else { 64 } } else if tier.is_thorough() { 4096 } else { 256 };
        let mut n = 1;
        while n <= max {
            let t = gen(n);
            if t.len() <= 64 * 1024 {
                texts.push(t);
            }
            n *= 4;
        }
    }
    v.push(crate::space::TextSpace::list("E-SCALE/texts", texts, 8, oracle));
    v
}
