//! C17 — analysis is invariant under layout and renaming, one-pass and deterministic.

use crate::core::*;
use crate::model::gen::prelude;
use crate::model::prog::*;
use crate::model::ProgCase;
use crate::props::{c03, c09::STDGATES, gprog, Meta};
use oq3_semantics::asg;
use oq3_semantics::symbols::{SymbolId, SymbolTable, SymbolType};
use oq3_semantics::syntax_to_semantics::parse_source_string;
use oq3_semantics::types::Type;
use serde_json::json;
use std::collections::BTreeMap;

pub fn meta() -> Meta {
    Meta {
        level: "exploration",
        rule: "every generated program (each leaf template alone and in every one-level context after its declarations, statement sequences, and the same with one injected semantic fault: a declaration deleted, duplicated, retyped, turned into a qubit or made const) under (a) the 10 uniform layouts and every layout deviating from the default in at most k gaps of its last statements with each separator flavour, (b) 4 fixed injective renamings of all user identifiers to fresh names (ASCII, leading underscore, Unicode, keyword-prefixed) and rotations, reversal and adjacent swaps of the user identifiers among themselves, (c) every split point at a top-level statement boundary, (d) the same text analysed twice; differential equality of graph, symbol table (up to the renaming) and diagnostic kinds; non-trivial = programs with at least two user identifiers and one diagnostic or one compound statement; outcomes = distinct (statement count, diagnostic kinds) observations",
        assumptions: vec![
            "a number and its unit are adjacent or separated by blanks only; gaps inside pragma / annotation lines are not varied",
            "renamings never map onto keywords, built-in constants, U or standard-library gate names",
            "programs on which the analyser panics or that the parser rejects are skipped (C03/C04)",
        ],
    }
}

#[derive(Clone, PartialEq, Debug)]
struct Obs {
    program: asg::Program,
    symbols: Vec<(String, Type)>,
    kinds: Vec<String>,
    ranges: Vec<(usize, usize)>,
    table: SymbolTable,
}

fn all_symbols(table: &SymbolTable) -> Vec<(String, Type)> {
    let mut out = Vec::new();
    let mut id = SymbolId::new();
    for _ in 0..100_000 {
        let r = catch(|| (table[&id].name().to_string(), table[&id].symbol_type().clone()));
        match r {
            Ok(x) => out.push(x),
            Err(_) => break,
        }
        id.post_increment();
    }
    out
}

fn observe(text: &str) -> Option<Obs> {
    let t = text.to_string();
    let r = catch(move || {
        let res = parse_source_string(t.as_str(), None);
        if res.any_syntax_errors() {
            return None;
        }
        let kinds = res.semantic_errors().iter().map(|e| format!("{:?}", e.kind())).collect();
        let ranges = res.semantic_errors().iter().map(|e| (usize::from(e.range().start()), usize::from(e.range().end()))).collect();
        Some((res.program().clone(), res.symbol_table().clone(), kinds, ranges))
    });
    match r {
        Ok(Some((program, table, kinds, ranges))) => {
            let symbols = all_symbols(&table);
            Some(Obs { program, symbols, kinds, ranges, table })
        }
        _ => None,
    }
}

fn reserved(name: &str) -> bool {
    const KW: &[&str] = &[
        "OPENQASM", "barrier", "box", "cal", "const", "def", "defcal", "defcalgrammar", "delay", "extern", "gate", "gphase", "include", "let", "measure", "pragma", "dim", "reset", "break", "case", "continue",
        "default", "else", "end", "for", "if", "in", "return", "switch", "while", "array", "creg", "input", "mutable", "output", "qreg", "qubit", "readonly", "void", "ctrl", "inv", "negctrl", "pow", "false", "true", "angle",
        "bit", "bool", "complex", "duration", "float", "int", "stretch", "uint", "pi", "euler", "tau", "U", "durationof",
    ];
    KW.contains(&name) || STDGATES.iter().any(|g| g.0 == name)
}

fn is_user_ident(t: &Tok) -> bool {
    if t.line || t.unit {
        return false;
    }
    let mut cs = t.text.chars();
    match cs.next() {
        Some(c) if c.is_ascii_alphabetic() || c == '_' => {}
        _ => return false,
    }
    t.text.chars().all(|c| c.is_ascii_alphanumeric() || c == '_') && !reserved(&t.text)
}

/// A diagnostic kind's debug text with every quoted identifier mapped through the renaming
/// (`RedeclarationError("r")` becomes `RedeclarationError("x_r")`): kinds are compared up to it.
fn kind_renamed(kind: &str, map: &BTreeMap<String, String>) -> String {
    let mut out = String::new();
    let mut rest = kind;
    while let Some(i) = rest.find('"') {
        out.push_str(&rest[..=i]);
        rest = &rest[i + 1..];
        match rest.find('"') {
            Some(j) => {
                let name = &rest[..j];
                // the kind's text is a Debug rendering: the new name appears escaped in it
                match map.get(name) {
                    Some(new) => {
                        let dbg = format!("{:?}", new);
                        out.push_str(&dbg[1..dbg.len() - 1]);
                    }
                    None => out.push_str(name),
                }
                out.push('"');
                rest = &rest[j + 1..];
            }
            None => break,
        }
    }
    out.push_str(rest);
    out
}

fn rename(toks: &[Tok], map: &BTreeMap<String, String>) -> Vec<Tok> {
    toks.iter()
        .map(|t| {
            if is_user_ident(t) {
                if let Some(n) = map.get(&t.text) {
                    let mut t2 = t.clone();
                    t2.text = n.clone();
                    return t2;
                }
            }
            t.clone()
        })
        .collect()
}

pub fn oracle_with(case: &ProgCase, index: u64, ctx: &mut Ctx, gap_bound: usize) {
    let toks = print_program(&case.stmts, Parens::Minimal);
    let base_text = layout_uniform(&toks, " ");
    let base = match observe(&base_text) {
        Some(b) => b,
        None => {
            ctx.count("skipped_not_analysed", 1);
            // not analysed with one blank in every gap: then neither with nothing in the gaps
            // (the two texts differ in white space between tokens only)
            let tight = layout_uniform(&toks, "");
            if observe(&tight).is_some() {
                ctx.fail(Failure {
                    rule: "layout".into(),
                    witness: base_text.clone(),
                    locus: format!("blank in every gap vs. no gap | {}", case.tag),
                    detail: format!("the program is rejected or not analysed with one blank between all tokens, and analysed when written tightly -- variant: `{}`", show(&tight)),
                    case: json!({"index": index, "text": base_text}),
                });
            }
            return;
        }
    };
    let names: Vec<String> = {
        let mut v: Vec<String> = toks.iter().filter(|t| is_user_ident(t)).map(|t| t.text.clone()).collect();
        v.sort();
        v.dedup();
        v
    };
    let mut h = fnv_mix(base.program.stmts().len() as u64, base.kinds.len() as u64);
    for k in &base.kinds {
        h = fnv_mix(h, fnv_str(k));
    }
    ctx.outcome(h);
    if names.len() >= 2 && (!base.kinds.is_empty() || case.tag.contains("spine[")) {
        ctx.mark_nontrivial(fnv_mix(fnv_str(&case.tag), index));
    }
    let fail = |ctx: &mut Ctx, rule: &str, locus: String, variant: &str, detail: String| {
        ctx.fail(Failure {
            rule: rule.into(),
            witness: base_text.clone(),
            locus: format!("{} | {}", locus, case.tag),
            detail: format!("{} -- variant: `{}`", detail, show(variant)),
            case: json!({"index": index, "text": base_text}),
        })
    };
    let diff = |a: &Obs, b: &Obs| -> Option<String> {
        if a.program != b.program {
            let (sa, sb) = (format!("{:?}", a.program), format!("{:?}", b.program));
            let d = sa.bytes().zip(sb.bytes()).position(|(x, y)| x != y).unwrap_or(0);
            return Some(format!("graphs differ near `{}` vs `{}`", sa.chars().skip(d.saturating_sub(30)).take(90).collect::<String>(), sb.chars().skip(d.saturating_sub(30)).take(90).collect::<String>()));
        }
        if a.kinds != b.kinds {
            return Some(format!("diagnostic kinds {:?} vs {:?}", a.kinds, b.kinds));
        }
        None
    };
    // (d) determinism: full equality including positions
    match observe(&base_text) {
        Some(again) if again == base => {}
        Some(again) => fail(ctx, "deterministic", "same text twice".into(), &base_text, diff(&base, &again).unwrap_or_else(|| "symbol tables or diagnostic positions differ".into())),
        None => fail(ctx, "deterministic", "same text twice".into(), &base_text, "the second analysis did not return a result".into()),
    }
    // (a) layouts
    let first_gap = {
        // gaps of the statements after the prelude (all gaps for the very first program)
        let pre = prelude().len();
        let has_prelude = case.stmts.len() > pre && case.stmts[..pre] == prelude()[..];
        if has_prelude && index != 0 {
            toks.iter().position(|t| t.stmt >= pre).unwrap_or(1).max(1)
        } else {
            1
        }
    };
    let check_layout = |ctx: &mut Ctx, text: String, what: String| {
        ctx.count("layout_variants", 1);
        match observe(&text) {
            None => fail(ctx, "layout", what, &text, "the re-laid-out program is rejected or not analysed".into()),
            Some(o) => {
                if let Some(d) = diff(&base, &o) {
                    fail(ctx, "layout", what, &text, d);
                } else if o.symbols != base.symbols {
                    fail(ctx, "layout", what, &text, "symbol tables differ".into());
                }
            }
        }
    };
    for sep in SEPARATORS {
        if *sep != " " {
            check_layout(ctx, layout_uniform(&toks, sep), format!("uniform {:?}", sep));
        }
    }
    let gaps: Vec<usize> = (first_gap..toks.len()).collect();
    for g in &gaps {
        for sep in SEPARATORS {
            if *sep == " " {
                continue;
            }
            let g = *g;
            let sep: &'static str = sep;
            check_layout(ctx, layout(&toks, &move |i| if i == g { sep } else { " " }), format!("one gap {:?}", sep));
        }
    }
    if gap_bound >= 2 && gaps.len() <= 25 {
        for (i, g1) in gaps.iter().enumerate() {
            for g2 in gaps.iter().skip(i + 1) {
                for (s1, s2) in [("", "\n"), ("/*c*/", ""), ("//c\n", "/*c*/"), ("\n", "\t"), ("", "")] {
                    let (g1, g2) = (*g1, *g2);
                    check_layout(ctx, layout(&toks, &move |i| if i == g1 { s1 } else if i == g2 { s2 } else { " " }), "two gaps".into());
                }
            }
        }
    }
    // (b) renamings
    let mut maps: Vec<(String, BTreeMap<String, String>)> = Vec::new();
    for (label, f) in [("ascii", (|n: &str| format!("x_{}", n)) as fn(&str) -> String), ("underscore", |n: &str| format!("_{}", n)), ("unicode", |n: &str| format!("é{}", n)), ("keyword-prefixed", |n: &str| format!("int_{}", n)),
        // characters that may continue but not start an identifier: a combining accent, a
        // non-ASCII digit, the middle dot, a connector; and a long name
        ("unicode-continue", |n: &str| format!("{}e\u{301}\u{662}\u{b7}\u{203f}z", n)), ("long", |n: &str| format!("{}_{}", n, "x".repeat(200)))] {
        maps.push((label.to_string(), names.iter().map(|n| (n.clone(), f(n))).collect()));
    }
    let n = names.len();
    if n >= 2 {
        for (label, shift) in [("rotate1", 1usize), ("rotate2", 2), ("reverse", 0)] {
            let m: BTreeMap<String, String> = names.iter().enumerate().map(|(i, nm)| (nm.clone(), if shift == 0 { names[n - 1 - i].clone() } else { names[(i + shift) % n].clone() })).collect();
            maps.push((label.to_string(), m));
        }
        for i in 0..n - 1 {
            let mut m: BTreeMap<String, String> = names.iter().map(|x| (x.clone(), x.clone())).collect();
            m.insert(names[i].clone(), names[i + 1].clone());
            m.insert(names[i + 1].clone(), names[i].clone());
            maps.push((format!("swap{}", i), m));
        }
    }
    for (label, m) in &maps {
        let text = layout_uniform(&rename(&toks, m), " ");
        ctx.count("renaming_variants", 1);
        match observe(&text) {
            None => fail(ctx, "renaming", format!("renaming {}", label.trim_end_matches(char::is_numeric)), &text, "the renamed program is rejected or not analysed".into()),
            Some(o) => {
                let mut expect = base.clone();
                expect.kinds = base.kinds.iter().map(|k| kind_renamed(k, m)).collect();
                if let Some(d) = diff(&expect, &o) {
                    fail(ctx, "renaming", format!("renaming {}", label.trim_end_matches(char::is_numeric)), &text, d);
                } else {
                    let mapped: Vec<(String, Type)> = base.symbols.iter().map(|(nm, ty)| (m.get(nm).cloned().unwrap_or_else(|| nm.clone()), ty.clone())).collect();
                    if mapped != o.symbols {
                        fail(ctx, "renaming", format!("renaming {}", label.trim_end_matches(char::is_numeric)), &text, "symbol tables differ beyond the renaming".into());
                    }
                }
            }
        }
    }
    // (c) prefixes at every top-level statement boundary
    let nst = case.stmts.len();
    for cut in 1..nst {
        let ptoks: Vec<Tok> = toks.iter().filter(|t| t.stmt < cut).cloned().collect();
        let text = layout_uniform(&ptoks, " ");
        ctx.count("prefix_variants", 1);
        match observe(&text) {
            None => fail(ctx, "prefix", "prefix not analysed".into(), &text, "the prefix of an analysable program is rejected or not analysed".into()),
            Some(o) => {
                let ps = o.program.stmts();
                let fs = base.program.stmts();
                if ps.len() > fs.len() || ps != &fs[..ps.len()] {
                    fail(ctx, "prefix", "graph statements".into(), &text, format!("the {} statements of the prefix are not a prefix of the {} statements of the whole", ps.len(), fs.len()));
                }
                if o.symbols.len() > base.symbols.len() || o.symbols[..] != base.symbols[..o.symbols.len()] {
                    fail(ctx, "prefix", "symbols".into(), &text, "the symbols of the prefix are not a prefix of the symbols of the whole".into());
                }
                if o.kinds.len() > base.kinds.len() || o.kinds[..] != base.kinds[..o.kinds.len()] || o.ranges[..] != base.ranges[..o.ranges.len().min(base.ranges.len())] {
                    fail(ctx, "prefix", "diagnostics".into(), &text, format!("diagnostics of the prefix {:?} are not a prefix of those of the whole {:?}", o.kinds, base.kinds));
                }
            }
        }
    }
}

pub fn oracle1(case: &ProgCase, index: u64, ctx: &mut Ctx) {
    oracle_with(case, index, ctx, 1)
}
pub fn oracle2(case: &ProgCase, index: u64, ctx: &mut Ctx) {
    oracle_with(case, index, ctx, 2)
}

pub fn spaces(tier: Tier, _seed: u64) -> Vec<Box<dyn Space>> {
    match tier {
        Tier::Quick => vec![gprog::annotated(oracle1), gprog::redeclarations(oracle1), gprog::library_clashes(oracle1), gprog::undeclared_calls(oracle1), gprog::const_assign_after_diagnostic(oracle1), gprog::notice_then_diagnostic(oracle1), gprog::spines(0, false, true, false, oracle1), gprog::spines(1, false, true, true, oracle1), gprog::sequences(1, true, true, oracle1), gprog::spines(0, false, false, false, oracle1), gprog::grid(0, true, true, oracle1), gprog::sequences(2, true, true, oracle1)],
        Tier::Thorough => vec![
            gprog::annotated(oracle2),
            gprog::redeclarations(oracle2),
            gprog::library_clashes(oracle2),
            gprog::undeclared_calls(oracle2),
            gprog::const_assign_after_diagnostic(oracle2),
            gprog::notice_then_diagnostic(oracle2),
            gprog::spines(0, false, true, false, oracle2),
            gprog::spines(1, false, true, true, oracle1),
            gprog::sequences(1, true, true, oracle2),
            gprog::sequences(2, true, true, oracle1),
            gprog::spines(0, false, false, false, oracle2),
            gprog::spines(1, false, false, false, oracle1),
            c03::fault_space(oracle1),
        ],
    }
}
