//! The program spaces shared by C04, C05, C06 (and reused by C03, C16, C17).

use crate::core::{Ctx, Space, Tier};
use crate::model::gen::*;
use crate::model::prog::*;
use crate::model::{ProgCase, ProgSpace};
use serde_json::json;

type Oracle = fn(&ProgCase, u64, &mut Ctx);

fn space(name: &str, count: u64, per_block: u64, desc: serde_json::Value, gen: Box<dyn Fn(u64) -> Option<ProgCase> + Send + Sync>, oracle: Oracle) -> Box<dyn Space> {
    Box::new(ProgSpace { name: name.to_string(), count, per_block, gen, oracle, desc, timeout_s: 120 })
}

/// Spines of exactly `k` contexts (from `ctxs`) around every leaf; `with_prelude` prepends the
/// declarations that make the program semantically meaningful.
pub fn spines(k: usize, reduced: bool, with_prelude: bool, sema_only: bool, oracle: Oracle) -> Box<dyn Space> {
    spines_over("spines", leaves, k, reduced, with_prelude, sema_only, oracle)
}

/// The same over the grid leaves (statement form x operand form, qualifier x type, assignment
/// operator x target form).
pub fn grid(k: usize, with_prelude: bool, sema_only: bool, oracle: Oracle) -> Box<dyn Space> {
    spines_over("grid", grid_leaves, k, false, with_prelude, sema_only, oracle)
}

fn spines_over(family: &'static str, leaves: fn() -> Vec<Leaf>, k: usize, reduced: bool, with_prelude: bool, sema_only: bool, oracle: Oracle) -> Box<dyn Space> {
    let ctxs: Vec<Context> = if reduced { CONTEXTS_REDUCED.to_vec() } else { CONTEXTS.to_vec() };
    let nl = leaves().len() as u64;
    let nc = ctxs.len() as u64;
    let count = nc.pow(k as u32) * nl;
    let name = format!("G-PROG/{}/k={}{}{}", family, k, if reduced { "/reduced" } else { "" }, if with_prelude { "/prelude" } else { "" });
    let desc = json!({"space": format!("G-PROG {}", family), "k": k, "contexts": ctxs.iter().map(|c| format!("{:?}", c)).collect::<Vec<_>>(),
                      "leaves": leaves().iter().map(|l| l.name).collect::<Vec<_>>(), "prelude": with_prelude});
    let gen = move |i: u64| -> Option<ProgCase> {
        let ls = leaves();
        let li = (i % nl) as usize;
        let mut rest = i / nl;
        let mut cs = Vec::new();
        for _ in 0..k {
            cs.push(ctxs[(rest % nc) as usize]);
            rest /= nc;
        }
        let leaf = &ls[li];
        if sema_only {
            if !leaf.sema {
                return None;
            }
            // declarations that are only legal at global scope stay at global scope
            if leaf.global_only && k > 0 {
                return None;
            }
            // gate and def bodies cannot be nested in anything
            if cs.iter().skip(1).any(|c| c.is_subroutine()) {
                return None;
            }
        }
        let st = spine(&cs, &leaf.stmt);
        let mut stmts = if with_prelude { prelude() } else { Vec::new() };
        stmts.push(st);
        Some(ProgCase { stmts, tag: format!("spine{:?}/leaf={}", cs, leaf.name) })
    };
    space(&name, count, 16, desc, Box::new(gen), oracle)
}

/// All sequences of exactly `n` top-level statements drawn from the leaves (plus annotation
/// lines before statements).
pub fn sequences(n: usize, with_prelude: bool, sema_only: bool, oracle: Oracle) -> Box<dyn Space> {
    let nl = leaves().len() as u64 + 1; // + annotation line
    let count = nl.pow(n as u32);
    let name = format!("G-PROG/sequences/n={}{}", n, if with_prelude { "/prelude" } else { "" });
    let desc = json!({"space": "G-PROG sequences", "n": n, "alphabet": nl, "prelude": with_prelude});
    let gen = move |i: u64| -> Option<ProgCase> {
        let ls = leaves();
        let mut rest = i;
        let mut stmts = if with_prelude { prelude() } else { Vec::new() };
        let mut names = Vec::new();
        let mut last_annot = false;
        for pos in 0..n {
            let li = (rest % nl) as usize;
            rest /= nl;
            if li == ls.len() {
                stmts.push(Stmt::Annotation(format!("@verif note {}", pos)));
                names.push("annotation");
                last_annot = true;
                continue;
            }
            last_annot = false;
            if sema_only && !ls[li].sema {
                return None;
            }
            // the same declaration twice would be a redeclaration: keep names unique
            let mut st = ls[li].stmt.clone();
            rename_decl(&mut st, pos);
            stmts.push(st);
            names.push(ls[li].name);
        }
        if last_annot {
            return None; // an annotation must be followed by a statement
        }
        Some(ProgCase { stmts, tag: format!("seq[{}]", names.join(",")) })
    };
    space(&name, count, 32, desc, Box::new(gen), oracle)
}

/// Every leaf with annotation lines before it: `@a L`, and `@a @b L @c reset r;` (two annotations
/// on one statement, an annotation on the statement after it).
pub fn annotated(oracle: Oracle) -> Box<dyn Space> {
    let count = leaves().len() as u64 * 2;
    let desc = json!({"space": "G-PROG annotated leaves", "forms": 2, "prelude": true});
    let gen = move |i: u64| -> Option<ProgCase> {
        let ls = leaves();
        let leaf = &ls[(i / 2) as usize];
        if !leaf.sema {
            return None;
        }
        let mut stmts = prelude();
        stmts.push(Stmt::Annotation("@verif first 1".into()));
        if i % 2 == 1 {
            stmts.push(Stmt::Annotation("@second".into()));
        }
        stmts.push(leaf.stmt.clone());
        if i % 2 == 1 {
            stmts.push(Stmt::Annotation("@third x y".into()));
            stmts.push(Stmt::Reset(crate::model::prog::Operand::Id("r".into())));
        }
        Some(ProgCase { stmts, tag: format!("annotated[{}]/leaf={}", i % 2, leaf.name) })
    };
    space("G-PROG/annotated/prelude", count, 8, desc, Box::new(gen), oracle)
}

/// Every leaf inside every context with a block body, with an annotation line directly in
/// front of it inside that body (and, second form, another one in front of the compound).
pub fn annotated_bodies(oracle: Oracle) -> Box<dyn Space> {
    let nl = leaves().len() as u64;
    let nc = CONTEXTS.len() as u64;
    let count = nl * nc * 2;
    let desc = json!({"space": "G-PROG annotations inside bodies", "contexts": CONTEXTS.iter().map(|c| format!("{:?}", c)).collect::<Vec<_>>(), "forms": 2, "prelude": true});
    let gen = move |i: u64| -> Option<ProgCase> {
        let ls = leaves();
        let form = i % 2;
        let leaf = &ls[((i / 2) % nl) as usize];
        let c = CONTEXTS[(i / 2 / nl) as usize];
        if !leaf.sema || leaf.global_only {
            return None;
        }
        let mut st = c.wrap(leaf.stmt.clone(), 1);
        if !annotate_inner(&mut st, &leaf.stmt, "@inner note 1") {
            return None;
        }
        let mut stmts = prelude();
        if form == 1 {
            stmts.push(Stmt::Annotation("@outer".into()));
        }
        stmts.push(st);
        stmts.push(Stmt::Reset(crate::model::prog::Operand::Id("r".into())));
        Some(ProgCase { stmts, tag: format!("annotated-body[{}]/{:?}/leaf={}", form, c, leaf.name) })
    };
    space("G-PROG/annotated-bodies/prelude", count, 16, desc, Box::new(gen), oracle)
}

/// The prelude followed by a redeclaration of each of its names with each of six other
/// declaration forms (a rejected declaration must leave what came before untouched), followed
/// by a use.
pub fn redeclarations(oracle: Oracle) -> Box<dyn Space> {
    const NAMES: [&str; 14] = ["q", "r", "a", "b", "c", "u", "f", "m", "k", "d", "ang", "g1", "g2", "f1"];
    let count = NAMES.len() as u64 * 6;
    let desc = json!({"space": "G-PROG redeclarations", "names": NAMES, "forms": ["float[64]", "qubit", "gate", "bit[2]", "const int", "def"], "prelude": true});
    let gen = move |i: u64| -> Option<ProgCase> {
        let name = NAMES[(i / 6) as usize].to_string();
        let form = i % 6;
        let st = match form {
            0 => Stmt::Decl { konst: false, ty: Ty::w("float", 64), name: name.clone(), init: None },
            1 => Stmt::Qubit { size: None, name: name.clone() },
            2 => Stmt::Gate { name: name.clone(), params: Some(vec!["th9".into()]), qubits: vec!["y8".into(), "y9".into()], body: vec![] },
            3 => Stmt::Decl { konst: false, ty: Ty::w("bit", 2), name: name.clone(), init: None },
            4 => Stmt::Decl { konst: true, ty: Ty::plain("int"), name: name.clone(), init: Some(int(1)) },
            _ => Stmt::Def { name: name.clone(), params: vec![], ret: None, body: vec![] },
        };
        let mut stmts = prelude();
        stmts.push(st);
        stmts.push(Stmt::Reset(crate::model::prog::Operand::Id("r".into())));
        Some(ProgCase { stmts, tag: format!("redeclare[{}]/{}", form, name) })
    };
    space("G-PROG/redeclarations/prelude", count, 8, desc, Box::new(gen), oracle)
}

/// Programs that bind k names of the standard gate library before including it (the include
/// then reports k redeclarations, whose order must be fixed).
pub fn library_clashes(oracle: Oracle) -> Box<dyn Space> {
    const NAMES: [&str; 8] = ["h", "x", "cx", "rz", "swap", "u3", "ccx", "id"];
    let desc = json!({"space": "G-PROG library clashes", "names": NAMES, "counts": [1, 2, 3, 8], "forms": ["int", "gate"]});
    let gen = move |i: u64| -> Option<ProgCase> {
        let k = [1usize, 2, 3, 8][(i / 2) as usize];
        let as_gate = i % 2 == 1;
        let mut stmts = vec![Stmt::Qubit { size: None, name: "r".into() }];
        for n in NAMES.iter().take(k) {
            stmts.push(if as_gate {
                Stmt::Gate { name: n.to_string(), params: None, qubits: vec!["y1".into()], body: vec![] }
            } else {
                Stmt::Decl { konst: false, ty: Ty::plain("int"), name: n.to_string(), init: None }
            });
        }
        stmts.push(Stmt::Include("\"stdgates.inc\"".into()));
        stmts.push(Stmt::Reset(crate::model::prog::Operand::Id("r".into())));
        stmts.push(Stmt::Include("\"stdgates.inc\"".into()));
        Some(ProgCase { stmts, tag: format!("library-clash[{}]/{}", if as_gate { "gate" } else { "int" }, k) })
    };
    space("G-PROG/library-clashes", 8, 1, desc, Box::new(gen), oracle)
}

/// Calls of names that are not declared, spelled like declared ones up to letter case (a
/// renaming must not change what they resolve to).
pub fn undeclared_calls(oracle: Oracle) -> Box<dyn Space> {
    const NAMES: [&str; 8] = ["u", "cX", "Cx", "H", "g1x", "G1", "f1", "Rx"];
    let desc = json!({"space": "G-PROG calls of undeclared names", "names": NAMES, "forms": ["gate call", "gate call with parameters", "subroutine call"], "prelude": true});
    let gen = move |i: u64| -> Option<ProgCase> {
        let name = NAMES[(i / 3) as usize].to_string();
        let st = match i % 3 {
            0 => Stmt::GateCall { mods: vec![], name: name.clone(), args: None, operands: vec![crate::model::prog::Operand::Id("r".into()), crate::model::prog::Operand::Indexed("q".into(), vec![Index::List(vec![IndexItem::E(int(0))])])] },
            1 => Stmt::GateCall { mods: vec![Modifier::Inv], name: name.clone(), args: Some(vec![int(1), int(2), int(3)]), operands: vec![crate::model::prog::Operand::Id("r".into())] },
            _ => Stmt::ExprStmt(Expr::Call(name.clone(), vec![id("a"), int(2)])),
        };
        let mut stmts = prelude();
        stmts.push(st);
        stmts.push(Stmt::Reset(crate::model::prog::Operand::Id("r".into())));
        Some(ProgCase { stmts, tag: format!("undeclared-call[{}]/{}", i % 3, name) })
    };
    space("G-PROG/undeclared-calls/prelude", NAMES.len() as u64 * 3, 4, desc, Box::new(gen), oracle)
}

/// A program that already has a diagnostic, followed by an assignment to a const (which must
/// add its own diagnostic without touching the earlier ones).
pub fn const_assign_after_diagnostic(oracle: Oracle) -> Box<dyn Space> {
    let desc = json!({"space": "G-PROG const assignment after a diagnostic", "earlier": ["undeclared initializer", "redeclaration", "type error"], "values": ["int literal", "variable", "float literal"], "prelude": true});
    let gen = move |i: u64| -> Option<ProgCase> {
        let earlier = match i / 3 {
            0 => Stmt::Decl { konst: false, ty: Ty::plain("int"), name: "y9".into(), init: Some(id("zz9")) },
            1 => Stmt::Decl { konst: false, ty: Ty::w("float", 64), name: "a".into(), init: None },
            _ => Stmt::Decl { konst: false, ty: Ty::plain("bool"), name: "y8".into(), init: Some(flt_e("1.5")) },
        };
        let value = match i % 3 {
            0 => int(2),
            1 => id("b"),
            _ => flt_e("2.5"),
        };
        let mut stmts = prelude();
        stmts.push(Stmt::Decl { konst: true, ty: Ty::plain("int"), name: "kk9".into(), init: Some(int(1)) });
        stmts.push(earlier);
        stmts.push(Stmt::Assign { target: crate::model::prog::Operand::Id("kk9".into()), op: None, value });
        stmts.push(Stmt::Reset(crate::model::prog::Operand::Id("r".into())));
        Some(ProgCase { stmts, tag: format!("const-assign-after-diagnostic[{}][{}]", i / 3, i % 3) })
    };
    space("G-PROG/const-assign-after-diagnostic/prelude", 9, 3, desc, Box::new(gen), oracle)
}

/// A statement the analyser only answers with its "not implemented" notice (the version line,
/// calibration, extern, old-style registers), then a statement with a genuine diagnostic: the
/// diagnostics come in the order of the statements.  The raw statements travel as line items.
pub fn notice_then_diagnostic(oracle: Oracle) -> Box<dyn Space> {
    const NOTICES: [&str; 5] = ["OPENQASM 3.0;", "extern e9(int) -> int;", "cal { }", "defcalgrammar \"openpulse\";", "qreg oq9[2];"];
    let desc = json!({"space": "G-PROG notice then diagnostic", "notices": NOTICES, "later": ["undeclared initializer", "redeclaration", "type error"], "prelude": true});
    let gen = move |i: u64| -> Option<ProgCase> {
        let notice = NOTICES[(i / 3) as usize];
        let later = match i % 3 {
            0 => Stmt::Decl { konst: false, ty: Ty::plain("int"), name: "y9".into(), init: Some(id("zz9")) },
            1 => Stmt::Decl { konst: false, ty: Ty::w("float", 64), name: "a".into(), init: None },
            _ => Stmt::Decl { konst: false, ty: Ty::plain("bool"), name: "y8".into(), init: Some(flt_e("1.5")) },
        };
        let mut stmts = Vec::new();
        if notice.starts_with("OPENQASM") {
            stmts.push(Stmt::Pragma(notice.to_string()));
            stmts.extend(prelude());
        } else {
            stmts.extend(prelude());
            stmts.push(Stmt::Pragma(notice.to_string()));
        }
        stmts.push(later);
        stmts.push(Stmt::Reset(crate::model::prog::Operand::Id("r".into())));
        stmts.push(Stmt::Decl { konst: false, ty: Ty::plain("int"), name: "y7".into(), init: Some(id("zz7")) });
        Some(ProgCase { stmts, tag: format!("notice-then-diagnostic[{}][{}]", i / 3, i % 3) })
    };
    space("G-PROG/notice-then-diagnostic/prelude", 15, 3, desc, Box::new(gen), oracle)
}

fn flt_e(t: &str) -> Expr {
    Expr::Float(t.to_string())
}

fn rename_decl(st: &mut Stmt, pos: usize) {
    let sfx = format!("_{}", pos);
    match st {
        Stmt::Decl { name, .. } | Stmt::Io { name, .. } | Stmt::Qubit { name, .. } | Stmt::Alias { name, .. } | Stmt::Gate { name, .. } | Stmt::Def { name, .. } => name.push_str(&sfx),
        _ => {}
    }
}

/// Expression spaces: every expression of the family in every expression position.
pub fn expressions(family: &'static str, positions: u64, oracle: Oracle) -> Box<dyn Space> {
    let n = match family {
        "two_op" => N_TWO_OP,
        "three_op" => N_THREE_OP,
        _ => unary_mix().len() as u64,
    };
    let count = n * positions;
    let name = format!("G-PROG/expr/{}/positions={}", family, positions);
    let desc = json!({"space": "G-PROG expressions", "family": family, "expressions": n, "positions": positions});
    let gen = move |i: u64| -> Option<ProgCase> {
        let pos = i / n;
        let k = i % n;
        let e = match family {
            "two_op" => two_op(k),
            "three_op" => three_op(k),
            _ => unary_mix()[k as usize].clone(),
        };
        Some(ProgCase { stmts: vec![in_position(pos, e)], tag: format!("expr/{}/pos={}", family, pos) })
    };
    space(&name, count, 256, desc, Box::new(gen), oracle)
}

pub fn syntax_spaces(tier: Tier, oracle: Oracle) -> Vec<Box<dyn Space>> {
    let mut v = vec![
        spines(0, false, false, false, oracle),
        spines(1, false, false, false, oracle),
        spines(2, false, false, false, oracle),
        spines(3, false, false, false, oracle),
        grid(0, false, false, oracle),
        grid(1, false, false, oracle),
        sequences(2, false, false, oracle),
        expressions("two_op", N_POSITIONS, oracle),
        expressions("unary_mix", N_POSITIONS, oracle),
        expressions("three_op", 1, oracle),
    ];
    if tier.is_thorough() {
        v.push(grid(2, false, false, oracle));
        v.push(spines(4, true, false, false, oracle));
        v.push(spines(5, true, false, false, oracle));
        v.push(sequences(3, false, false, oracle));
        v.push(expressions("three_op", 4, oracle));
    }
    v
}

/// Single-fault mutation of a printed program, exhaustive over positions: each token deleted,
/// duplicated, and replaced by each of a set of "worst offender" tokens; plus every uniform
/// layout of the unmodified program.  `f` is called on every resulting text.
pub fn for_each_fault(case: &ProgCase, f: &mut dyn FnMut(&str)) {
    const OFFENDERS: [&str; 11] = ["(", ")", "{", "}", "[", ";", "=", "else", "def", "3", "§"];
    let toks = print_program(&case.stmts, Parens::Minimal);
    for sep in SEPARATORS {
        f(&layout_uniform(&toks, sep));
    }
    for i in 0..toks.len() {
        let mut del = toks.clone();
        del.remove(i);
        f(&layout_uniform(&del, " "));
        let mut dup = toks.clone();
        dup.insert(i, toks[i].clone());
        f(&layout_uniform(&dup, " "));
        // a run of two or three tokens written twice (one more `, e` / `: e` / `[ e ]`)
        for w in [2usize, 3] {
            if i + w <= toks.len() {
                let mut dup = toks.clone();
                for (k, t) in toks[i..i + w].iter().enumerate() {
                    dup.insert(i + w + k, t.clone());
                }
                f(&layout_uniform(&dup, " "));
            }
        }
        for o in OFFENDERS {
            if toks[i].text == o {
                continue;
            }
            let mut rep = toks.clone();
            rep[i].text = o.to_string();
            rep[i].line = false;
            rep[i].unit = false;
            f(&layout_uniform(&rep, " "));
        }
    }
}

/// Programs for the single-fault spaces: every leaf alone and in every context.
pub fn fault_programs(k: usize, oracle: Oracle) -> Box<dyn Space> {
    spines(k, false, false, false, oracle)
}

/// Every token prefix of one long program (the prelude followed by every leaf template and
/// every context around an assignment): end of input at every position, with every token count
/// up to the length of the program (so also at every multiple of 64, the width of the
/// jointness bit-set words).
pub fn prefix_texts() -> Vec<String> {
    let mut stmts = prelude();
    for l in leaves() {
        stmts.push(l.stmt.clone());
    }
    let a1 = Stmt::Assign { target: Operand::Id("a".into()), op: None, value: int(1) };
    for (i, c) in CONTEXTS.iter().enumerate() {
        stmts.push(c.wrap(a1.clone(), 50 + i as u32));
    }
    let toks = print_program(&stmts, Parens::Minimal);
    (0..=toks.len()).map(|n| layout_uniform(&toks[..n], " ")).collect()
}
