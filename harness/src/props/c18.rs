//! C18 — includes act as in-place textual inclusion with ordered path search.
//!
//! Exhaustive over file-system arrangements: every assignment of each include file to a
//! subset of the search directories (with directory-specific contents, so that the directory
//! that was picked is observable), every search list that is a permutation of a subset of the
//! directories, given explicitly / through QASM3_PATH / not at all, relative and absolute
//! spellings, and a family of main programs around the include sites.  Oracles: a reference
//! resolver (R-fs) and the differential comparison with the analysis of the textually
//! inlined program.

use crate::core::*;
use crate::props::Meta;
use oq3_semantics::semantic_error::{SemanticErrorKind, SemanticErrorList};
use oq3_semantics::symbols::{SymbolId, SymbolTable, SymbolType};
use oq3_semantics::syntax_to_semantics::{parse_source_file_with_search, parse_source_string, parse_source_string_with_path_search};
use oq3_semantics::types::Type;
use serde_json::{json, Value};
use std::path::{Path, PathBuf};

pub fn meta() -> Meta {
    Meta {
        level: "exploration",
        rule: "every arrangement of the include files a b (thorough: a b c) over 2 (thorough 3) search directories (each file present in any subset of the directories, with directory-specific contents; file b optionally using a's symbol or including a; c including b), x every search list that is a permutation of a subset of the directories x {explicit list with a contradicting QASM3_PATH, QASM3_PATH only, neither} x {string entry point, file entry point} x 14 main programs (include first / between declarations / used afterwards / name clash / two files in both orders / twice / below global scope in if and def / missing / with stdgates / missing in the middle / absolute path / nested) ; each configuration analysed once and compared with the reference resolver and with the analysis of the inlined text; non-trivial = configurations in which at least one include resolves through a search list of two or more directories; outcomes = distinct (resolved directories, diagnostic kinds) observations",
        assumptions: vec![
            "include cycles (a file including itself) are outside the statement and are not generated",
            "the environment variable is process-global: each worker process runs its configurations one after the other on a single thread",
            "temporary trees live under /verif/.work/fs-<pid>",
        ],
    }
}

const DIRS: [&str; 3] = ["d1", "d2", "d3"];
/// Pseudo directory index of the process's working directory (arrangement kind 10).
const CWD: usize = 9;
/// Pseudo directory indices of search-list entries that are not directories: a path that does
/// not exist, and a regular file.  They hold no include file and must simply be passed over.
const NODIR: usize = 6;
const AFILE: usize = 7;
fn dir_name(d: usize) -> &'static str {
    match d {
        CWD => "cwd",
        NODIR => "nodir",
        AFILE => "afile",
        _ => DIRS[d],
    }
}

#[derive(Clone, Copy, Debug, PartialEq, Eq)]
pub enum Mode {
    Explicit,
    Env,
    Neither,
}

#[derive(Clone, Debug)]
pub struct Arrangement {
    pub ndirs: usize,
    /// presence[f] = bit mask of the directories containing file f (f = 0:a, 1:b, 2:c)
    pub presence: Vec<u8>,
    /// 0: b declares its own symbol; 1: b uses a's symbol; 2: b includes a.inc;
    /// 3: b has a syntax error; 4: b has a lexical error;
    /// 5: as 0, and every directory holds a real file named `stdgates.inc` (a decoy that must
    /// never be read: the standard library is built in); 6: as 5, the decoy has a syntax error;
    /// 7: as 0, and every directory that lacks one of the files holds a *directory* of that name;
    /// 8: as 0, and every file ends with an annotation line (which belongs to whatever follows
    /// the include); 9: file a is empty, file b holds white space only, c a comment only;
    /// 10: as 0, and the working directory of the process holds its own copies of all the files
    /// (the path as written is the last resort, after the search list);
    /// 11: as 0, but file b lives in a sub-directory `sub/` of every directory that holds it and
    /// is included as `sub/b.inc` (a relative path with a directory component is joined whole
    /// to each search directory); the plain name `b.inc` then resolves nowhere
    pub b_kind: u8,
}

pub const FILES: [&str; 3] = ["a.inc", "b.inc", "c.inc"];

fn content(f: usize, dir: usize, b_kind: u8) -> String {
    // the literal identifies the directory the file was taken from
    match f {
        0 if b_kind == 9 => String::new(),
        0 if b_kind == 8 => format!("int va = {};\nbit[2] ma;\n@tail a\n", 10 + dir),
        0 => format!("int va = {};\nbit[2] ma;\n", 10 + dir),
        1 => match b_kind {
            9 => "  \n\t\n".to_string(),
            8 => format!("int vb = {};\n@tail b 1\n@tail b 2\n", 20 + dir),
            0 | 5 | 6 | 7 | 10 | 11 => format!("int vb = {};\n", 20 + dir),
            1 => format!("int vb = {};\nint wb = va;\n", 20 + dir),
            3 => format!("int vb = ;\nint wb = {};\n", 20 + dir),
            4 => format!("int vb = 0b;\nint wb = {};\n", 20 + dir),
            _ => format!("include \"a.inc\";\nint vb = {};\n", 20 + dir),
        },
        _ if b_kind == 9 => "// nothing here\n".to_string(),
        _ if b_kind == 8 => format!("include \"b.inc\";\nint vc = {};\n@tail c\n", 30 + dir),
        _ if b_kind == 11 => format!("include \"sub/b.inc\";\nint vc = {};\n", 30 + dir),
        _ => format!("include \"b.inc\";\nint vc = {};\n", 30 + dir),
    }
}

pub fn mains() -> Vec<(&'static str, &'static str)> {
    vec![
        ("first", "include \"a.inc\";\n"),
        ("between", "int pre = 1;\ninclude \"a.inc\";\nint post = 2;\n"),
        ("used", "include \"a.inc\";\nint use_a = va;\nma[0] = 1;\n"),
        ("clash", "int va = 0;\ninclude \"a.inc\";\nint after = va;\n"),
        ("two", "include \"a.inc\";\ninclude \"b.inc\";\nint s = vb;\n"),
        ("two_rev", "include \"b.inc\";\ninclude \"a.inc\";\n"),
        ("twice", "include \"a.inc\";\ninclude \"a.inc\";\n"),
        ("in_if", "int pre = 1;\nif (true) { include \"a.inc\"; }\nint post = 2;\n"),
        ("in_def", "def f() { include \"a.inc\"; }\nint post = 2;\n"),
        ("missing", "include \"missing.inc\";\nint post = 1;\n"),
        ("stdgates", "include \"stdgates.inc\";\ninclude \"a.inc\";\nqubit q;\nh q;\n"),
        ("missing_mid", "include \"a.inc\";\ninclude \"missing.inc\";\ninclude \"b.inc\";\nint s = vb;\n"),
        ("absolute", "include \"@ABS@/d1/a.inc\";\nint s = va;\n"),
        ("nested", "include \"c.inc\";\nint s = vc;\n"),
        ("bad_escape", "int pre = 1;\ninclude \"a\\q.inc\";\n"),
        ("no_path", "int pre = 1;\ninclude;\ninclude \"a.inc\";\n"),
        ("in_if_then_top", "if (true) { include \"a.inc\"; }\ninclude \"b.inc\";\nint s = vb;\n"),
        ("in_def_then_top", "def f() { include \"b.inc\"; }\ninclude \"a.inc\";\nint s = va;\n"),
        ("stdgates_in_if", "if (true) { include \"stdgates.inc\"; }\nqubit q;\nint post = 1;\n"),
        ("stdgates_in_def", "def f() { include \"stdgates.inc\"; }\nint post = 1;\n"),
        ("dot_stdgates", "include \"./stdgates.inc\";\nint post = 1;\n"),
        ("stdgates_mid", "include \"a.inc\";\ninclude \"stdgates.inc\";\ninclude \"b.inc\";\nint s = vb;\nqubit q;\nh q;\n"),
        ("annotated", "int pre = 1;\n@note one\n@second\ninclude \"a.inc\";\nint post = 2;\n"),
        ("annotated_last", "int pre = 1;\n@note one\ninclude \"b.inc\";\n"),
        ("stdgates_single_quotes", "include 'stdgates.inc';\ninclude \"a.inc\";\nqubit q;\nh q;\nint s = va;\n"),
        ("subdir", "include \"sub/b.inc\";\nint s = vb;\n"),
        ("subdir_two", "include \"a.inc\";\ninclude \"sub/b.inc\";\ninclude \"b.inc\";\n"),
    ]
}

/// All permutations of all subsets of `0..n`.
pub fn search_lists(n: usize) -> Vec<Vec<usize>> {
    fn rec(n: usize, cur: &mut Vec<usize>, out: &mut Vec<Vec<usize>>) {
        out.push(cur.clone());
        for d in 0..n {
            if !cur.contains(&d) {
                cur.push(d);
                rec(n, cur, out);
                cur.pop();
            }
        }
    }
    let mut out = Vec::new();
    rec(n, &mut Vec::new(), &mut out);
    out
}

/// Where file f lives inside a search directory.
fn rel_path(f: usize, b_kind: u8) -> String {
    if b_kind == 11 && f == 1 { format!("sub/{}", FILES[f]) } else { FILES[f].to_string() }
}

fn work_root() -> PathBuf {
    PathBuf::from(format!("{}/.work/fs-{}", crate::verif_root(), std::process::id()))
}

struct Tree {
    root: PathBuf,
}

impl Tree {
    fn build(arr: &Arrangement, tag: u64) -> std::io::Result<Tree> {
        let root = work_root().join(format!("arr{}", tag));
        let _ = std::fs::remove_dir_all(&root);
        for d in 0..arr.ndirs {
            std::fs::create_dir_all(root.join(DIRS[d]))?;
        }
        // an earlier history of the same paths: every file first holds other, longer contents
        // and is analysed once in this process; what it held then must not matter afterwards
        for (f, mask) in arr.presence.iter().enumerate() {
            for d in 0..arr.ndirs {
                if mask & (1 << d) != 0 {
                    let dir = root.join(DIRS[d]);
                    if arr.b_kind == 11 {
                        std::fs::create_dir_all(dir.join("sub"))?;
                    }
                    std::fs::write(dir.join(rel_path(f, arr.b_kind)), format!("/* {} */\nint stale_{}_{} = nosuch_stale;\ngate stale_gate_{} w {{ }}\n", "earlier contents ".repeat(40), f, d, f))?;
                    let main = format!("include \"{}\";\n", rel_path(f, arr.b_kind));
                    let dirs = vec![dir];
                    let _ = catch(move || parse_source_string_with_path_search(main.as_str(), Some("earlier.qasm"), Some(dirs.as_slice())).any_syntax_errors());
                }
            }
        }
        for (f, mask) in arr.presence.iter().enumerate() {
            for d in 0..arr.ndirs {
                if mask & (1 << d) != 0 {
                    std::fs::write(root.join(DIRS[d]).join(rel_path(f, arr.b_kind)), content(f, d, arr.b_kind))?;
                }
            }
        }
        if arr.b_kind == 7 {
            for (f, mask) in arr.presence.iter().enumerate() {
                for d in 0..arr.ndirs {
                    if mask & (1 << d) == 0 {
                        std::fs::create_dir_all(root.join(DIRS[d]).join(FILES[f]))?;
                    }
                }
            }
        }
        std::fs::create_dir_all(root.join("cwd"))?;
        std::fs::write(root.join("afile"), "int not_a_directory = 1;\n")?;
        if arr.b_kind == 10 {
            // the same earlier history for the copies in the working directory, reached through
            // the path as written
            let _ = std::env::set_current_dir(root.join("cwd"));
            for f in 0..arr.presence.len() {
                std::fs::write(root.join("cwd").join(FILES[f]), format!("/* {} */\nint stale_cwd_{} = nosuch_stale;\n", "earlier contents ".repeat(40), f))?;
                let main = format!("include \"{}\";\n", FILES[f]);
                let none: Vec<PathBuf> = Vec::new();
                let _ = catch(move || parse_source_string_with_path_search(main.as_str(), Some("earlier.qasm"), Some(none.as_slice())).any_syntax_errors());
            }
            let _ = std::env::set_current_dir(crate::verif_root());
            for f in 0..arr.presence.len() {
                std::fs::write(root.join("cwd").join(FILES[f]), content(f, CWD, 10))?;
            }
        }
        if arr.b_kind == 5 || arr.b_kind == 6 {
            for d in 0..arr.ndirs {
                let text = if arr.b_kind == 5 { format!("int decoy = {};\ngate h w {{ }}\n", 90 + d) } else { "int decoy = ;\n".to_string() };
                std::fs::write(root.join(DIRS[d]).join("stdgates.inc"), text)?;
            }
        }
        Ok(Tree { root })
    }
}

impl Drop for Tree {
    fn drop(&mut self) {
        let _ = std::fs::remove_dir_all(&self.root);
        // the per-process parent goes too once it is empty
        let _ = std::fs::remove_dir(work_root());
    }
}

/// R-fs: which directory does `name` resolve to under the search list?
fn resolve(arr: &Arrangement, name: &str, effective: Option<&[usize]>) -> Option<usize> {
    let f = if arr.b_kind == 11 {
        // b lives under sub/ only
        (0..FILES.len()).find(|f| rel_path(*f, 11) == name)?
    } else {
        FILES.iter().position(|x| *x == name)?
    };
    let in_list = effective.and_then(|list| list.iter().copied().find(|d| arr.presence.get(f).map(|m| m & (1 << d) != 0).unwrap_or(false)));
    // not found through the list: the path as written, i.e. relative to the working directory
    in_list.or(if arr.b_kind == 10 && f < arr.presence.len() { Some(CWD) } else { None })
}

/// Expected observation computed from the reference resolver: the inlined text, the spans of
/// the included files in it, the diagnostics that must be added, the directories picked.
struct Expected {
    inlined: String,
    /// (canonical path of the file, lo, hi) in the inlined text
    spans: Vec<(PathBuf, usize, usize)>,
    extra: Vec<String>,
    picked: Vec<usize>,
    multi: bool,
}

fn expected(arr: &Arrangement, tree: &Tree, text: &str, effective: Option<&[usize]>, depth: usize, out: &mut Expected, toplevel: bool) {
    // our texts keep one statement per line; includes below global scope are on one line with their block
    for line in text.lines() {
        let trimmed = line.trim();
        if let Some(rest) = trimmed.strip_prefix("include \"") {
            let name = rest.trim_end_matches("\";");
            if name == "stdgates.inc" {
                out.inlined.push_str(line);
                out.inlined.push('\n');
                continue;
            }
            let path: Option<PathBuf> = if name.starts_with('/') {
                let p = PathBuf::from(name);
                if p.is_file() { Some(p) } else { None }
            } else {
                resolve(arr, name, effective).map(|d| {
                    out.picked.push(d);
                    if effective.map(|l| l.len() >= 2).unwrap_or(false) {
                        out.multi = true;
                    }
                    tree.root.join(dir_name(d)).join(name)
                })
            };
            match path {
                Some(p) if depth < 4 => {
                    let body = std::fs::read_to_string(&p).unwrap_or_default();
                    let lo = out.inlined.len();
                    expected(arr, tree, &body, effective, depth + 1, out, toplevel);
                    let hi = out.inlined.len();
                    out.spans.push((std::fs::canonicalize(&p).unwrap_or(p), lo, hi));
                }
                _ => out.extra.push("FileNotFound".into()),
            }
        } else if trimmed.contains("include \"") {
            // an include below the global scope is reported and not expanded
            out.extra.push("IncludeNotInGlobalScopeError".into());
            let lo = trimmed.find("include \"").unwrap();
            let hi = trimmed[lo..].find(';').map(|i| lo + i + 1).unwrap_or(trimmed.len());
            out.inlined.push_str(&trimmed[..lo]);
            out.inlined.push_str(&trimmed[hi..]);
            out.inlined.push('\n');
        } else {
            out.inlined.push_str(line);
            out.inlined.push('\n');
        }
    }
}

fn kind_name(k: &SemanticErrorKind) -> String {
    match k {
        SemanticErrorKind::RedeclarationError(n) => format!("RedeclarationError({})", n),
        other => format!("{:?}", other),
    }
}

fn flatten(l: &SemanticErrorList, out: &mut Vec<(PathBuf, Vec<String>)>) {
    out.push((l.source_file_path().clone(), l.iter().map(|e| kind_name(e.kind())).collect()));
    for inc in l.include_errors() {
        flatten(inc, out);
    }
}

fn all_symbols(table: &SymbolTable) -> Vec<(String, Type)> {
    let mut out = Vec::new();
    let mut id = SymbolId::new();
    for _ in 0..100_000 {
        match catch(|| (table[&id].name().to_string(), table[&id].symbol_type().clone())) {
            Ok(x) => out.push(x),
            Err(_) => break,
        }
        id.post_increment();
    }
    out
}

pub struct Configs {
    pub ndirs: usize,
    pub nfiles: usize,
}

impl Configs {
    fn arrangements(&self) -> Vec<Arrangement> {
        let masks = 1u32 << self.ndirs;
        let mut out = Vec::new();
        let combos = masks.pow(self.nfiles as u32);
        for c in 0..combos {
            let mut presence = Vec::new();
            let mut x = c;
            for _ in 0..self.nfiles {
                presence.push((x % masks) as u8);
                x /= masks;
            }
            for b_kind in 0..12u8 {
                // kinds 1 to 4 and 11 only matter when b is present somewhere
                if ((1..=4).contains(&b_kind) || b_kind == 11) && presence.get(1).copied().unwrap_or(0) == 0 {
                    continue;
                }
                out.push(Arrangement { ndirs: self.ndirs, presence: presence.clone(), b_kind });
            }
        }
        out
    }

    fn run_config(&self, arr: &Arrangement, tree: &Tree, list: &[usize], mode: Mode, main_idx: usize, file_entry: bool, ctx: &mut Ctx, ai: u64) {
        let (mname, mtext) = mains()[main_idx];
        if (mname == "nested") && self.nfiles < 3 {
            return;
        }
        // with a real file of that name in the directories `./stdgates.inc` is an ordinary
        // include of that file (the reference resolver only knows the three include files)
        if mname == "dot_stdgates" && (arr.b_kind == 5 || arr.b_kind == 6) {
            return;
        }
        let main_text = mtext.replace("@ABS@", tree.root.to_str().unwrap_or(""));
        let case = json!({"arrangement": ai, "presence": arr.presence, "b_kind": arr.b_kind, "search": list, "mode": format!("{:?}", mode), "main": mname, "file_entry": file_entry,
                          "witness": format!("files={:?}/b{} search={:?} mode={:?} main={} entry={}", arr.presence, arr.b_kind, list, mode, mname, if file_entry { "file" } else { "string" })});
        if !ctx.begin(|| case.clone()) {
            return;
        }
        let wit = case["witness"].as_str().unwrap_or("").to_string();
        // paths are shown relative to the scratch tree (its name holds the process id)
        let root_text = tree.root.display().to_string();
        let mut fail = |ctx: &mut Ctx, rule: &str, locus: String, detail: String| ctx.fail(Failure { rule: rule.into(), witness: wit.clone(), locus: format!("{} | main={} mode={:?}", locus, mname, mode).replace(&root_text, "<tree>"), detail: detail.replace(&root_text, "<tree>"), case: case.clone() });
        let dirs: Vec<PathBuf> = list.iter().map(|d| tree.root.join(dir_name(*d))).collect();
        // the effective list of the reference resolver
        let effective: Option<Vec<usize>> = match mode {
            Mode::Explicit => Some(list.to_vec()),
            Mode::Env => Some(list.to_vec()),
            Mode::Neither => None,
        };
        // environment: in Explicit mode the variable names the directories in *reverse* order
        // (it must be ignored); in Env mode it is the list; otherwise it is unset
        match mode {
            Mode::Explicit => {
                let rev: Vec<PathBuf> = (0..arr.ndirs).rev().map(|d| tree.root.join(DIRS[d])).collect();
                std::env::set_var("QASM3_PATH", std::env::join_paths(rev).unwrap_or_default());
            }
            Mode::Env => std::env::set_var("QASM3_PATH", std::env::join_paths(dirs.iter()).unwrap_or_default()),
            Mode::Neither => std::env::remove_var("QASM3_PATH"),
        }
        let search: Option<Vec<PathBuf>> = if mode == Mode::Explicit { Some(dirs.clone()) } else { None };
        // every configuration is preceded, in the same process, by a small analysis under a
        // *different* environment (a decoy directory with other contents): resolution must
        // depend on the current environment only, never on an earlier one
        {
            let saved = std::env::var_os("QASM3_PATH");
            let decoy = tree.root.join("decoy");
            let _ = std::fs::create_dir_all(&decoy);
            for f in FILES {
                let _ = std::fs::write(decoy.join(f), "int decoy_file = 99;\n");
            }
            std::env::set_var("QASM3_PATH", &decoy);
            let _ = catch(|| {
                let r = parse_source_string_with_path_search("include \"a.inc\";\ninclude \"b.inc\";\n", Some("warmup.qasm"), None::<&[PathBuf]>);
                r.any_syntax_errors()
            });
            match saved {
                Some(v) => std::env::set_var("QASM3_PATH", v),
                None => std::env::remove_var("QASM3_PATH"),
            }
        }
        let main_path = tree.root.join("main.qasm");
        if file_entry && std::fs::write(&main_path, &main_text).is_err() {
            return;
        }
        let mt = main_text.clone();
        let mp = main_path.clone();
        // the working directory is a directory of the tree (empty, or with its own copies of the
        // files in arrangement kind 10)
        let _ = std::env::set_current_dir(tree.root.join("cwd"));
        let observed = catch(move || {
            let run = |res_prog: &oq3_semantics::asg::Program, table: &SymbolTable, errs: &SemanticErrorList, any_syn: bool| {
                let mut lists = Vec::new();
                flatten(errs, &mut lists);
                (res_prog.clone(), all_symbols(table), lists, any_syn)
            };
            if file_entry {
                let res = parse_source_file_with_search(&mp, search.as_deref());
                run(res.program(), res.symbol_table(), res.semantic_errors(), res.any_syntax_errors())
            } else {
                let res = parse_source_string_with_path_search(mt.as_str(), Some("main.qasm"), search.as_deref());
                run(res.program(), res.symbol_table(), res.semantic_errors(), res.any_syntax_errors())
            }
        });
        std::env::remove_var("QASM3_PATH");
        let _ = std::env::set_current_dir(crate::verif_root());
        let (program, symbols, lists, any_syn) = match observed {
            Ok(x) => x,
            Err(p) => {
                fail(ctx, "include_no_panic", p.locus(), format!("analysis panicked: {}", p.message));
                return;
            }
        };
        // expected
        let mut exp = Expected { inlined: String::new(), spans: Vec::new(), extra: Vec::new(), picked: Vec::new(), multi: false };
        expected(arr, tree, &main_text, effective.as_deref(), 0, &mut exp, true);
        // a syntax fault in the main text, or in an included file that is actually read, gates analysis
        let fault_in_main = mname == "bad_escape" || mname == "no_path";
        let fault_in_b = (arr.b_kind == 3 || arr.b_kind == 4) && exp.spans.iter().any(|(p, _, _)| p.file_name().map(|n| n == "b.inc").unwrap_or(false));
        if fault_in_main || fault_in_b {
            ctx.outcome(fnv_mix(0x5f, (any_syn as u64) << 8 | program.stmts().len().min(9) as u64));
            if exp.multi {
                ctx.mark_nontrivial(fnv_str(&wit));
            }
            let nsem: usize = lists.iter().map(|l| l.1.len()).sum();
            if !any_syn {
                fail(ctx, "include_gating", "syntax fault not reported".into(), format!("the {} has a syntax or lexical fault but any_syntax_errors() is false", if fault_in_main { "main text" } else { "included file b.inc" }));
            } else if !program.stmts().is_empty() || nsem != 0 {
                fail(ctx, "include_gating", "analysis ran despite syntax errors".into(), format!("{} statements and {} semantic diagnostics although a syntax diagnostic exists", program.stmts().len(), nsem));
            }
            return;
        }
        if any_syn {
            fail(ctx, "include_equiv", "syntax diagnostics".into(), "a configuration without syntax faults reports syntax errors".into());
            return;
        }
        let inl = exp.inlined.clone();
        let reference = catch(move || {
            let res = parse_source_string(inl.as_str(), Some("main.qasm"));
            let errs: Vec<(String, usize, usize)> = res.semantic_errors().iter().map(|e| (kind_name(e.kind()), usize::from(e.range().start()), usize::from(e.range().end()))).collect();
            (res.program().clone(), all_symbols(res.symbol_table()), errs, res.any_syntax_errors())
        });
        let (rprogram, rsymbols, rerrs, rsyn) = match reference {
            Ok(x) => x,
            Err(_) => {
                ctx.count("skipped_reference_panics", 1);
                return;
            }
        };
        if rsyn {
            ctx.count("skipped_reference_syntax", 1);
            return;
        }
        let mut h = fnv_mix(exp.picked.iter().fold(7u64, |a, d| fnv_mix(a, *d as u64)), program.stmts().len() as u64);
        if program != rprogram {
            let (sa, sb) = (format!("{:?}", program), format!("{:?}", rprogram));
            let d = sa.bytes().zip(sb.bytes()).position(|(x, y)| x != y).unwrap_or(0);
            fail(
                ctx,
                "include_equiv",
                "graph differs from the inlined program".into(),
                format!("with includes ...{}... inlined ...{}... (inlined text: `{}`)", sa.chars().skip(d.saturating_sub(40)).take(110).collect::<String>(), sb.chars().skip(d.saturating_sub(40)).take(110).collect::<String>(), show(&exp.inlined)),
            );
        }
        if symbols != rsymbols {
            fail(ctx, "include_equiv", "symbols differ from the inlined program".into(), format!("symbols with includes {:?}, inlined {:?}", symbols.iter().skip(7).map(|s| &s.0).collect::<Vec<_>>(), rsymbols.iter().skip(7).map(|s| &s.0).collect::<Vec<_>>()));
        }
        // diagnostics: multiset equality overall ...
        let mut got_all: Vec<String> = lists.iter().flat_map(|(_, k)| k.iter().cloned()).collect();
        let mut want_all: Vec<String> = rerrs.iter().map(|e| e.0.clone()).collect();
        want_all.extend(exp.extra.iter().cloned());
        // "an include that cannot be read is reported": which I/O kind it is (not found, is a
        // directory, ...) is not part of the statement
        for k in got_all.iter_mut() {
            if matches!(k.as_str(), "IOError" | "PermissionDenied" | "IsADirectory" | "InvalidFilename") {
                *k = "FileNotFound".into();
            }
        }
        got_all.sort();
        want_all.sort();
        for k in &got_all {
            h = fnv_mix(h, fnv_str(k));
        }
        ctx.outcome(h);
        if exp.multi {
            ctx.mark_nontrivial(fnv_str(&wit));
        }
        if got_all != want_all {
            fail(ctx, "include_diagnostics", "diagnostic multiset".into(), format!("diagnostics {:?}, expected {:?} (those of the inlined program plus {:?})", got_all, want_all, exp.extra));
        }
        // ... and per included file: the list tagged with its path holds the diagnostics of its text
        for (path, lo, hi) in &exp.spans {
            let inner_spans: Vec<&(PathBuf, usize, usize)> = exp.spans.iter().filter(|(_, l, h)| *l >= *lo && *h <= *hi && (*l, *h) != (*lo, *hi)).collect();
            let mut want: Vec<String> = rerrs
                .iter()
                .filter(|(_, s, e)| *s >= *lo && *e <= *hi && !inner_spans.iter().any(|(_, l, h)| *s >= *l && *e <= *h))
                .map(|e| e.0.clone())
                .collect();
            want.sort();
            let tagged: Vec<&(PathBuf, Vec<String>)> = lists.iter().filter(|(p, _)| p == path).collect();
            if tagged.is_empty() {
                fail(ctx, "include_resolution", "no diagnostic list tagged with the resolved path".into(), format!("no list is tagged {:?}; lists are tagged {:?}", path, lists.iter().map(|l| &l.0).collect::<Vec<_>>()));
                continue;
            }
            // the same file may be included more than once: some tagged list must match
            let ok = tagged.iter().any(|(_, ks)| {
                let mut ks: Vec<String> = ks.iter().filter(|k| !matches!(k.as_str(), "FileNotFound" | "IOError" | "PermissionDenied" | "IsADirectory" | "InvalidFilename")).cloned().collect();
                ks.sort();
                ks == want
            });
            if !ok && tagged.len() == 1 {
                fail(ctx, "include_diagnostics", "diagnostics of the included file".into(), format!("the list tagged {:?} holds {:?}, the file's own text yields {:?}", path, tagged[0].1, want));
            }
        }
        let _ = Path::new("");
    }
}

impl Space for Configs {
    fn name(&self) -> String {
        format!("F-FS/files={}/dirs={}", self.nfiles, self.ndirs)
    }
    fn describe(&self) -> Value {
        let arrs = self.arrangements().len();
        let lists = search_lists(self.ndirs).len();
        json!({"space": "F-FS", "files": &FILES[..self.nfiles], "directories": &DIRS[..self.ndirs], "arrangements": arrs, "search_lists": lists,
               "modes": ["Explicit (QASM3_PATH set to the reverse order)", "Env", "Neither"], "mains": mains().iter().map(|m| m.0).collect::<Vec<_>>(),
               "entry_points": ["parse_source_string_with_path_search", "parse_source_file_with_search"],
               "configurations_upper_bound": arrs * lists * 3 * mains().len() * 2})
    }
    fn num_blocks(&self) -> u64 {
        self.arrangements().len() as u64
    }
    fn run_block(&self, block: u64, ctx: &mut Ctx) {
        let arrs = self.arrangements();
        let arr = &arrs[block as usize];
        let tree = match Tree::build(arr, block) {
            Ok(t) => t,
            Err(e) => {
                ctx.count("fs_errors", 1);
                let _ = e;
                return;
            }
        };
        let mut lists = search_lists(self.ndirs);
        if self.nfiles == 2 {
            // entries that are not directories, before and between the real ones
            for l in search_lists(self.ndirs).into_iter().filter(|l| !l.is_empty()) {
                let mut a = vec![NODIR];
                a.extend(l.iter().copied());
                lists.push(a);
                let mut b = l.clone();
                b.insert(1.min(b.len()), AFILE);
                lists.push(b);
            }
        }
        for list in lists {
            for mode in [Mode::Explicit, Mode::Env, Mode::Neither] {
                if mode == Mode::Neither && !list.is_empty() {
                    continue;
                }
                for m in 0..mains().len() {
                    for file_entry in [false, true] {
                        self.run_config(arr, &tree, &list, mode, m, file_entry, ctx, block);
                    }
                }
            }
        }
    }
    fn replay(&self, case: &Value, ctx: &mut Ctx) {
        let ai = case["arrangement"].as_u64().unwrap_or(0);
        let arrs = self.arrangements();
        let arr = match arrs.get(ai as usize) {
            Some(a) => a,
            None => return,
        };
        let tree = match Tree::build(arr, 1_000_000 + ai) {
            Ok(t) => t,
            Err(_) => return,
        };
        let list: Vec<usize> = case["search"].as_array().map(|a| a.iter().filter_map(|v| v.as_u64().map(|x| x as usize)).collect()).unwrap_or_default();
        let mode = match case["mode"].as_str() {
            Some("Explicit") => Mode::Explicit,
            Some("Env") => Mode::Env,
            _ => Mode::Neither,
        };
        let m = mains().iter().position(|x| Some(x.0) == case["main"].as_str()).unwrap_or(0);
        self.run_config(arr, &tree, &list, mode, m, case["file_entry"].as_bool().unwrap_or(false), ctx, ai);
    }
    fn block_timeout_s(&self) -> u64 {
        240
    }
}

/// Chains of nested includes: main includes c1, c1 includes c2, ... to depth d; the last file
/// either ends the chain, includes a missing file, or includes the first again would be a cycle
/// (not generated). The graph and symbols must equal those of the inlined text.
pub struct Chains {
    pub max_depth: usize,
}

impl Chains {
    fn run(&self, depth: usize, tail: u8, file_entry: bool, ctx: &mut Ctx) {
        let case = json!({"depth": depth, "tail": tail, "file_entry": file_entry, "witness": format!("chain depth={} tail={} entry={}", depth, ["end", "missing", "stdgates"][tail as usize], if file_entry { "file" } else { "string" })});
        if !ctx.begin(|| case.clone()) {
            return;
        }
        let wit = case["witness"].as_str().unwrap_or("").to_string();
        let root = work_root().join(format!("chain{}_{}_{}", depth, tail, file_entry as u8));
        let _ = std::fs::remove_dir_all(&root);
        if std::fs::create_dir_all(root.join("d1")).is_err() {
            return;
        }
        // c_i: include of c_{i+1} first, then its own declaration
        let mut inlined = String::new();
        for i in (1..=depth).rev() {
            let next = if i < depth {
                format!("include \"c{}.inc\";\n", i + 1)
            } else {
                match tail {
                    1 => "include \"nosuch.inc\";\n".to_string(),
                    2 => "include \"stdgates.inc\";\n".to_string(),
                    _ => String::new(),
                }
            };
            let text = format!("{}int v{} = {};\n", next, i, i);
            if std::fs::write(root.join("d1").join(format!("c{}.inc", i)), &text).is_err() {
                return;
            }
        }
        if tail == 2 {
            inlined.push_str("include \"stdgates.inc\";\n");
        }
        for i in (1..=depth).rev() {
            inlined.push_str(&format!("int v{} = {};\n", i, i));
        }
        let main_text = format!("include \"c1.inc\";\nint s = v{};\nint t = v1;\n", depth);
        inlined.push_str(&format!("int s = v{};\nint t = v1;\n", depth));
        let main_path = root.join("main.qasm");
        let _ = std::fs::write(&main_path, &main_text);
        let search = vec![root.join("d1")];
        let mt = main_text.clone();
        let observed = catch(move || {
            if file_entry {
                let res = parse_source_file_with_search(&main_path, Some(&search));
                (res.program().clone(), all_symbols(res.symbol_table()), { let mut l = Vec::new(); flatten(res.semantic_errors(), &mut l); l }, res.any_syntax_errors())
            } else {
                let res = parse_source_string_with_path_search(mt.as_str(), Some("main.qasm"), Some(&search));
                (res.program().clone(), all_symbols(res.symbol_table()), { let mut l = Vec::new(); flatten(res.semantic_errors(), &mut l); l }, res.any_syntax_errors())
            }
        });
        let _ = std::fs::remove_dir_all(&root);
        let _ = std::fs::remove_dir(work_root());
        let mut fail = |ctx: &mut Ctx, rule: &str, locus: &str, detail: String| ctx.fail(Failure { rule: rule.into(), witness: wit.clone(), locus: locus.into(), detail, case: case.clone() });
        let (program, symbols, lists, any_syn) = match observed {
            Ok(x) => x,
            Err(p) => {
                fail(ctx, "include_no_panic", &p.locus(), format!("analysis of an include chain of depth {} panicked: {}", depth, p.message));
                return;
            }
        };
        let inl = inlined.clone();
        let reference = catch(move || {
            let res = parse_source_string(inl.as_str(), Some("main.qasm"));
            (res.program().clone(), all_symbols(res.symbol_table()), res.semantic_errors().iter().map(|e| kind_name(e.kind())).collect::<Vec<_>>())
        });
        let (rprogram, rsymbols, mut rkinds) = match reference {
            Ok(x) => x,
            Err(_) => return,
        };
        ctx.outcome(fnv_mix(depth as u64, program.stmts().len() as u64));
        if depth >= 2 {
            ctx.mark_nontrivial(fnv_str(&wit));
        }
        if any_syn {
            fail(ctx, "include_equiv", "chain | syntax diagnostics", "a chain without syntax faults reports syntax errors".into());
            return;
        }
        if program != rprogram {
            fail(ctx, "include_equiv", "chain | graph differs from the inlined program", format!("{} statements with includes, {} inlined", program.stmts().len(), rprogram.stmts().len()));
        }
        if symbols != rsymbols {
            fail(ctx, "include_equiv", "chain | symbols differ from the inlined program", format!("{} symbols with includes, {} inlined", symbols.len(), rsymbols.len()));
        }
        let mut got: Vec<String> = lists.iter().flat_map(|(_, k)| k.iter().cloned()).map(|k| if matches!(k.as_str(), "IOError" | "PermissionDenied" | "IsADirectory" | "InvalidFilename") { "FileNotFound".to_string() } else { k }).collect();
        if tail == 1 {
            rkinds.push("FileNotFound".into());
        }
        got.sort();
        rkinds.sort();
        if got != rkinds {
            fail(ctx, "include_diagnostics", "chain | diagnostic multiset", format!("diagnostics {:?}, expected {:?}", got, rkinds));
        }
    }
}

impl Space for Chains {
    fn name(&self) -> String {
        format!("F-CHAIN/depth<={}", self.max_depth)
    }
    fn describe(&self) -> Value {
        json!({"space": "F-CHAIN", "depths": format!("1..={}", self.max_depth), "tails": ["end", "include of a missing file", "include of stdgates.inc"], "entry_points": 2})
    }
    fn num_blocks(&self) -> u64 {
        self.max_depth as u64
    }
    fn run_block(&self, block: u64, ctx: &mut Ctx) {
        for tail in 0..3u8 {
            for fe in [false, true] {
                self.run(block as usize + 1, tail, fe, ctx);
            }
        }
    }
    fn replay(&self, case: &Value, ctx: &mut Ctx) {
        self.run(case["depth"].as_u64().unwrap_or(1) as usize, case["tail"].as_u64().unwrap_or(0) as u8, case["file_entry"].as_bool().unwrap_or(false), ctx);
    }
    fn block_timeout_s(&self) -> u64 {
        120
    }
}

pub fn spaces(tier: Tier, _seed: u64) -> Vec<Box<dyn Space>> {
    match tier {
        Tier::Quick => vec![Box::new(Configs { ndirs: 2, nfiles: 2 }), Box::new(Configs { ndirs: 2, nfiles: 3 }), Box::new(Chains { max_depth: 20 })],
        Tier::Thorough => vec![Box::new(Configs { ndirs: 2, nfiles: 2 }), Box::new(Configs { ndirs: 3, nfiles: 3 }), Box::new(Chains { max_depth: 70 })],
    }
}
