//! C04 — valid OpenQASM 3 programs are accepted with zero syntax diagnostics.

use crate::core::*;
use crate::model::prog::*;
use crate::model::ProgCase;
use crate::props::{gprog, Meta};
use crate::subject;
use serde_json::json;

pub fn meta() -> Meta {
    Meta {
        level: "exploration",
        rule: "bounded derivations of the reference grammar: spines of k compound-statement contexts (16 contexts: every body of if/else/while/for/case/default/gate/def as block or single statement) around each of ~65 leaf statement templates, all sequences of n top-level statements, all expression trees with two (three) operators over 19 binary and 3 unary operators in 12 expression positions; each program printed with minimal, full and redundant parentheses and 7 uniform separator flavours and parsed through both entry points; non-trivial = the program has a compound statement or an operator expression; outcomes = distinct tree shapes",
        assumptions: vec![
            "the claimed grammar is the one listed in DESIGN.md 4.4 (official-grammar forms of the constructs the statement names); arrow measurement, defcal/cal, box, durationof, arrays, extern and old-style declarations are outside it",
            "a blank, not arbitrary trivia, separates a number from its unit",
        ],
    }
}

pub fn oracle(case: &ProgCase, index: u64, ctx: &mut Ctx) {
    let mut nontrivial = false;
    for parens in [Parens::Minimal, Parens::Full, Parens::Redundant] {
        let toks = print_program(&case.stmts, parens);
        for sep in SEPARATORS {
            let text = layout_uniform(&toks, sep);
            let mut fail = |ctx: &mut Ctx, entry: &str, msg: String, off: usize| {
                ctx.fail(Failure {
                    rule: "accepted".into(),
                    witness: text.clone(),
                    locus: format!("{} | {}", msg, case.tag),
                    detail: format!("{} reports `{}` at byte {} of `{}` ({:?}, separator {:?})", entry, msg, off, show(&text), parens, sep),
                    case: json!({"index": index, "text": text}),
                })
            };
            match subject::parse(&text) {
                Err(_) => ctx.count("skipped_not_returning", 1),
                Ok(p) => {
                    if let Some(e) = p.errors().first() {
                        fail(ctx, "SourceFile::parse", e.message().to_string(), usize::from(e.range().start()));
                    } else {
                        ctx.outcome(subject::tree_hash(&p.syntax_node()));
                        nontrivial = true;
                    }
                }
            }
            match subject::parse_check_lex(&text) {
                Err(_) => ctx.count("skipped_not_returning", 1),
                Ok(p) => {
                    if let Some(e) = p.errors().first() {
                        fail(ctx, "SourceFile::parse_check_lex", e.message().to_string(), usize::from(e.range().start()));
                    } else if !p.have_parse() {
                        fail(ctx, "SourceFile::parse_check_lex", "no tree returned".into(), 0);
                    }
                }
            }
        }
    }
    if nontrivial {
        ctx.mark_nontrivial(fnv_mix(fnv_str(&case.tag), index));
    }
}

pub fn spaces(tier: Tier, _seed: u64) -> Vec<Box<dyn Space>> {
    gprog::syntax_spaces(tier, oracle)
}
