//! C04 — valid OpenQASM 3 programs are accepted with zero syntax diagnostics.

use crate::core::*;
use crate::model::prog::*;
use crate::model::ProgCase;
use crate::props::{gprog, Meta};
use crate::subject;
use serde_json::json;

pub fn meta() -> Meta {
    Meta {
        level: "exploration",
        rule: "bounded derivations of the reference grammar: spines of k compound-statement contexts (17 contexts: every body of if/else/while/for/case/default/gate/def as block or single statement) around each of ~65 leaf statement templates, all sequences of n top-level statements, all expression trees with two (three) operators over 19 binary and 3 unary operators in 12 expression positions; each program printed with minimal, full and redundant parentheses and 10 uniform separator flavours (among them a non-ASCII line comment, CR LF with vertical tab and form feed, a block comment ending in **/) and parsed through both entry points; non-trivial = the program has a compound statement or an operator expression; outcomes = distinct tree shapes",
        assumptions: vec![
            "the reference grammar of the model is the one listed in DESIGN.md 4.4 (official-grammar forms of the constructs the statement names); arrays, extern, defcal/cal, durationof, old-style registers and built-in calls are covered by a fixed list of 74 statement texts in 5 positions and 6 separator flavours instead; arrow measurement and box statements, which the parser does not accept, are outside the claim",
            "a number and its unit are written adjacently or separated by blanks, never by other trivia",
        ],
    }
}

pub fn oracle(case: &ProgCase, index: u64, ctx: &mut Ctx) {
    let mut nontrivial = false;
    for parens in [Parens::Minimal, Parens::Full, Parens::Redundant] {
        let toks = print_program(&case.stmts, parens);
        for sep in SEPARATORS {
            let text = layout_uniform(&toks, sep);
            let mut fail = |ctx: &mut Ctx, entry: &str, msg: String, off: usize| {
                ctx.fail(Failure {
                    rule: "accepted".into(),
                    witness: text.clone(),
                    locus: format!("{} | {}", msg, case.tag),
                    detail: format!("{} reports `{}` at byte {} of `{}` ({:?}, separator {:?})", entry, msg, off, show(&text), parens, sep),
                    case: json!({"index": index, "text": text}),
                })
            };
            match subject::parse(&text) {
                Err(_) => ctx.count("skipped_not_returning", 1),
                Ok(p) => {
                    if let Some(e) = p.errors().first() {
                        fail(ctx, "SourceFile::parse", e.message().to_string(), usize::from(e.range().start()));
                    } else {
                        ctx.outcome(subject::tree_hash(&p.syntax_node()));
                        nontrivial = true;
                    }
                }
            }
            match subject::parse_check_lex(&text) {
                Err(_) => ctx.count("skipped_not_returning", 1),
                Ok(p) => {
                    if let Some(e) = p.errors().first() {
                        fail(ctx, "SourceFile::parse_check_lex", e.message().to_string(), usize::from(e.range().start()));
                    } else if !p.have_parse() {
                        fail(ctx, "SourceFile::parse_check_lex", "no tree returned".into(), 0);
                    }
                }
            }
        }
    }
    if nontrivial {
        ctx.mark_nontrivial(fnv_mix(fnv_str(&case.tag), index));
    }
}

/// Statements of constructs outside the reference grammar of the model that the parser
/// supports (arrays, extern, calibration blocks, old-style registers, durationof, alias
/// concatenation, built-in calls), tokens separated by single blanks.
pub const EXTRA_VALID: &[&str] = &[
    "array [ int [ 8 ] , 4 ] a ;",
    "array [ float [ 64 ] , 2 , 3 ] m ;",
    "array [ uint [ 8 ] , 2 ] a = { 1 , 2 } ;",
    "array [ int [ 8 ] , 2 , 2 ] a = { { 1 , 2 } , { 3 , 4 } } ;",
    "array [ bool , 2 ] a ;",
    "array [ complex [ float [ 32 ] ] , 2 ] a ;",
    "array [ angle [ 8 ] , 3 ] a ;",
    "array [ duration , 3 ] a ;",
    "input array [ int [ 8 ] , 4 ] ia ;",
    "output array [ uint [ 8 ] , 2 ] ob ;",
    "input array [ float [ 64 ] , 2 , 2 ] ia ;",
    "const array [ int [ 8 ] , 2 ] a = { 1 , 2 } ;",
    "def f ( readonly array [ int [ 8 ] , 4 ] a ) { }",
    "def f ( mutable array [ int [ 8 ] , #dim = 1 ] a ) { }",
    "def f ( qubit q1 , qubit [ 2 ] q2 , int [ 8 ] n ) -> bit { return measure q1 ; }",
    "extern g ( int , float [ 32 ] ) -> int ;",
    "extern g ( ) -> bit [ 4 ] ;",
    "duration d2 = durationof ( { h r ; } ) ;",
    "defcalgrammar \"openpulse\" ;",
    "cal { }",
    "defcal x $0 { }",
    "defcal rx ( angle [ 20 ] t ) $0 { }",
    "qreg q2 [ 2 ] ;",
    "creg c2 [ 2 ] ;",
    "let al = q [ 0 : 1 ] ++ q [ 2 : 3 ] ;",
    "int s2 = sizeof ( a ) ;",
    "a [ 0 ] = 1 ;",
    "int y = a [ 1 ] [ 2 ] ;",
    "int y = a [ 1 , 2 ] ;",
    "float [ 32 ] z = arcsin ( 0.5 ) ;",
    "duration d3 = 2 * d ;",
    "delay [ 2 * d ] r ;",
    "stretch g ;",
    "U ( pi , 0 , pi / 2 ) $1 ;",
    "gphase ( pi / 4 ) ;",
    "for uint i in { 1 , 2 , 3 } a = i ;",
    "for int i in m { }",
    // an expression as iterable, followed by a body without curlies of every statement start
    "for int i in m x r ;",
    "for int i in m a = i ;",
    "for int i in m f1 ( i ) ;",
    "for int i in m inv @ x r ;",
    "for int i in m if ( a ) x r ;",
    "for int i in m [ 0 : 2 ] x r ;",
    "for int i in m reset r ;",
    // old-style registers: the designator is optional
    "qreg q1 ;",
    "creg c2 ;",
    "qreg q3 [ 2 ] ;",
    "creg c4 [ 2 ] ;",
    "def f9 ( qreg q , creg c ) { }",
    "def f8 ( qreg q [ 2 ] , creg c [ 3 ] ) { }",
    "for bit b1 in m { }",
    "for int [ 8 ] i in [ 0 : 2 : 8 ] { }",
    "switch ( a ) { case 1 { } case 2 , 3 { } default { } }",
    "bool t = a == 1 && b != 2 || ! ( c < 3 ) ;",
    "int r2 = a ** 2 % 3 ;",
    "complex [ float [ 64 ] ] c1 = 1.0 + 2.0 im ;",
    "bit [ 4 ] b4 = \"0101\" ;",
    "uint [ 8 ] u8 = 0xFF ;",
    "int big = 1_000_000 ;",
    "float f2 = 1.5e-3 ;",
    "duration d4 = 1.5 us ;",
    "if ( a < 3 ) h r ; else x r ;",
    "return ;",
    "end ;",
    "delay [ 10 ns ] ;",
    "delay [ d ] ;",
    "if ( a ) @ann\n h r ;",
    "while ( a ) @ann\n h r ;",
    "for int i in [ 0 : f1 ( 1 , 2 ) ] @ann\n h r ;",
    "if ( a ) h r ; else @ann\n x r ;",
    "inv @ h r ;",
    "ctrl ( 2 ) @ x q [ 0 ] , q [ 1 ] , r ;",
    "pow ( 2 ) @ ctrl @ x r , q [ 0 ] ;",
    "negctrl ( 2 ) @ inv @ rx ( 0.5 ) q [ 0 ] , q [ 1 ] , r ;",
    "rx ( ) r ;",
    "inv @ h ( ) r ;",
    "ctrl @ x ( ) q [ 0 ] , r ;",
    "pow ( 2 ) @ g1 ( ) r ;",
    "negctrl ( 2 ) @ inv @ x ( ) q [ 0 ] , q [ 1 ] , r ;",
    "@QPU\n int w1 ;",
    "@X¤1\n h r ;",
    "@IBM.layout¤0¤1\n h r ;",
    "OPENQASM¤3.0 ;",
    "OPENQASM¤3 ;",
    "nop ;",
    "nop $0 ;",
    "nop $1 , $2 ;",
];

/// EXTRA_VALID plus every well-formed lexeme in the positions where the grammar takes it.
pub fn extra_valid_all() -> Vec<String> {
    let mut v: Vec<String> = EXTRA_VALID.iter().map(|s| s.to_string()).collect();
    v.extend(crate::props::c15::lexeme_context_texts().into_iter().filter(|(_, standard)| *standard).map(|(t, _)| t));
    v
}

fn extra_texts() -> Vec<String> {
    let mut v = Vec::new();
    for t in extra_valid_all() {
        let t = t.as_str();
        for (pre, post) in [("", ""), ("int pre ; ", ""), ("", " int post ;"), ("if ( true ) { ", " }"), ("while ( a ) { int pre ; ", " a ; }")] {
            // definitions stay at the top level
            let top_only = t.starts_with("def ") || t.starts_with("extern ") || t.starts_with("defcal") || t.starts_with("cal ") || t.starts_with("input ") || t.starts_with("output ") || t.starts_with("qreg") || t.starts_with("creg") || t.starts_with("return");
            if top_only && pre.contains('{') {
                continue;
            }
            let base = format!("{}{}{}", pre, t, post);
            for sep in [" ", "\n", "\t", "/*c*/", "//c\n", "  \n "] {
                // a comment directly after the division sign would start another comment
                if sep.starts_with('/') && base.contains(" / ") {
                    continue;
                }
                // the version number must be followed by white space or `;` (the lexer's reading
                // of the header; C15 makes the same assumption)
                if sep.starts_with('/') && base.contains("OPENQASM") {
                    continue;
                }
                // `¤` stands for a blank inside a lexeme (the version header)
                v.push(base.replace(' ', sep).replace('¤', " "));
            }
        }
    }
    v
}

fn extra_oracle(text: &str, ctx: &mut Ctx) {
    for (entry, r) in [("SourceFile::parse", subject::parse(text).map(|p| p.errors().first().map(|e| (e.message().to_string(), usize::from(e.range().start()))))), ("SourceFile::parse_check_lex", subject::parse_check_lex(text).map(|p| p.errors().first().map(|e| (e.message().to_string(), usize::from(e.range().start())))))] {
        match r {
            Err(_) => ctx.count("skipped_not_returning", 1),
            Ok(Some((msg, off))) => ctx.fail(Failure {
                rule: "accepted".into(),
                witness: text.to_string(),
                locus: format!("{} | extra", msg),
                detail: format!("{} reports `{}` at byte {} of `{}`", entry, msg, off, show(text)),
                case: json!({"text": text}),
            }),
            Ok(None) => {
                ctx.mark_nontrivial(fnv_str(text));
                ctx.outcome(fnv_str(text.split_whitespace().next().unwrap_or("")));
            }
        }
    }
}

pub fn spaces(tier: Tier, _seed: u64) -> Vec<Box<dyn Space>> {
    let mut v = gprog::syntax_spaces(tier, oracle);
    v.push(crate::space::TextSpace::list("EXTRA-VALID (constructs outside the model grammar that the parser supports)", extra_texts(), 64, extra_oracle));
    v
}
