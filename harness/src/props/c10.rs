//! C10 — literal values reach the semantic graph exactly.

use crate::core::*;
use crate::props::Meta;
use oq3_semantics::asg;
use oq3_semantics::syntax_to_semantics::parse_source_string;
use oq3_semantics::types::{ArrayDims, Type};
use oq3_syntax::ast::{self, AstNode};
use serde_json::{json, Value};

pub fn meta() -> Meta {
    Meta {
        level: "exploration",
        rule: "structured finite sets of literal spellings: every integer 0..4096, every 2^k and 2^k +- 1 for k <= 128 and 64 digit patterns, each in decimal, binary, octal and hexadecimal with both prefix cases, both hex digit cases and every legal single-underscore placement (all placements up to 6 digits, grouped beyond); float spellings = 5 mantissas x 6 fractions x 8 exponents x underscore variants x leading-dot forms; all bit strings up to 12 bits and structured ones up to 256 bits in both quote flavours with underscores; all 6 time units and the imaginary unit, glued and spaced; booleans; each as expression statement, under unary minus (glued and spaced) and as initializer; expected values are computed by the harness from its own spelling generator; non-trivial = spellings with a radix prefix, an underscore, an exponent or a unit; outcomes = distinct (class, value) pairs",
        assumptions: vec![
            "integers are covered on the stated set, not on all of [0, 2^128)",
            "the expected double is Rust's str::parse::<f64> of the underscore-free spelling",
        ],
    }
}

#[derive(Clone, Debug)]
pub enum Exp {
    Int { v: u128, neg: bool },
    Float { v: f64, neg: bool },
    Bits { bits: String },
    TimingInt { v: u128, unit: &'static str },
    TimingFloat { v: f64, unit: &'static str },
    ImagInt { v: u128, neg: bool },
    ImagFloat { v: f64, neg: bool },
    Bool(bool),
}

#[derive(Clone, Debug)]
pub struct Case {
    pub text: String,
    pub exp: Exp,
    pub nontrivial: bool,
}

fn unit_name(u: &asg::TimeUnit) -> &'static str {
    match u {
        asg::TimeUnit::Second => "s",
        asg::TimeUnit::MilliSecond => "ms",
        asg::TimeUnit::MicroSecond => "us",
        asg::TimeUnit::NanoSecond => "ns",
        asg::TimeUnit::Cycle => "dt",
    }
}

fn feq(a: f64, b: f64) -> bool {
    a.to_bits() == b.to_bits() || (a.is_nan() && b.is_nan()) || a == b
}

/// Find the literal of the first statement (through a cast, an initializer or an expression statement).
fn first_literal(stmt: &asg::Stmt) -> Option<(&asg::Literal, &Type)> {
    fn lit(t: &asg::TExpr) -> Option<(&asg::Literal, &Type)> {
        match t.expression() {
            asg::Expr::Literal(l) => Some((l, t.get_type())),
            asg::Expr::Cast(c) => lit(c.operand()),
            _ => None,
        }
    }
    match stmt {
        asg::Stmt::ExprStmt(t) => lit(t),
        asg::Stmt::DeclareClassical(d) => d.initializer().and_then(lit),
        _ => None,
    }
}

pub fn check(c: &Case, ctx: &mut Ctx) {
    let text = c.text.clone();
    let case = json!({"text": c.text, "expect": format!("{:?}", c.exp)});
    if !ctx.begin(|| case.clone()) {
        return;
    }
    let mut fail = |ctx: &mut Ctx, locus: &str, detail: String| ctx.fail(Failure { rule: "literal_value".into(), witness: c.text.clone(), locus: locus.into(), detail, case: case.clone() });
    // the AST accessors
    let ast_obs = catch(|| {
        let p = ast::SourceFile::parse(&text);
        if !p.errors().is_empty() {
            return Err(format!("syntax diagnostics: {}", p.errors()[0].message()));
        }
        let mut ints = Vec::new();
        let mut floats = Vec::new();
        let mut bits = Vec::new();
        let mut units = Vec::new();
        for n in p.syntax_node().descendants() {
            if let Some(l) = ast::Literal::cast(n.clone()) {
                match l.kind() {
                    ast::LiteralKind::IntNumber(i) => ints.push(i.value()),
                    ast::LiteralKind::FloatNumber(f) => floats.push(f.value()),
                    ast::LiteralKind::BitString(b) => bits.push(b.value().map(|s| s.to_string())),
                    _ => {}
                }
            }
            if let Some(t) = ast::TimingLiteral::cast(n) {
                units.push(format!("{:?}", t.time_unit()));
            }
        }
        Ok((ints, floats, bits, units))
    });
    let (ints, floats, bits, _units) = match ast_obs {
        Err(p) => return fail(ctx, &p.locus(), format!("parsing or the literal accessors panicked: {}", p.message)),
        Ok(Err(m)) => return fail(ctx, "rejected", m),
        Ok(Ok(x)) => x,
    };
    match &c.exp {
        Exp::Int { v, .. } | Exp::TimingInt { v, .. } | Exp::ImagInt { v, .. } => {
            if ints.last() != Some(&Some(*v)) {
                fail(ctx, "IntNumber::value", format!("AST integer value {:?}, expected {}", ints.last(), v));
            }
        }
        Exp::Float { v, .. } | Exp::TimingFloat { v, .. } | Exp::ImagFloat { v, .. } => match floats.first() {
            Some(Some(g)) if feq(*g, *v) => {}
            other => fail(ctx, "FloatNumber::value", format!("AST float value {:?}, expected {:?}", other, v)),
        },
        Exp::Bits { bits: b } => {
            let got = bits.first().cloned().flatten().map(|s| s.replace('_', ""));
            if got.as_deref() != Some(b.as_str()) {
                fail(ctx, "BitString::value", format!("AST bit string {:?}, expected {}", got, b));
            }
        }
        Exp::Bool(_) => {}
    }
    // the graph
    let r = catch(|| {
        let res = parse_source_string(text.as_str(), None);
        if res.any_syntax_errors() {
            return None;
        }
        let s = res.program().stmts().first()?.clone();
        first_literal(&s).map(|(l, t)| (l.clone(), t.clone()))
    });
    let (lit, ty) = match r {
        Err(p) => return fail(ctx, &p.locus(), format!("analysis panicked: {}", p.message)),
        Ok(None) => return fail(ctx, "no literal in graph", "the first statement of the graph holds no literal".into()),
        Ok(Some(x)) => x,
    };
    let float_of = |f: &asg::FloatLiteral| f.value().parse::<f64>();
    let ok = match (&c.exp, &lit) {
        (Exp::Int { v, neg }, asg::Literal::Int(i)) => *i.value() == *v && *i.sign() == !*neg,
        (Exp::Float { v, neg }, asg::Literal::Float(f)) => float_of(f).map(|g| feq(g, if *neg { -*v } else { *v })).unwrap_or(false),
        (Exp::Bits { bits: b }, asg::Literal::BitString(s)) => s.value().replace('_', "") == *b && ty == Type::BitArray(ArrayDims::D1(b.len()), oq3_semantics::types::IsConst::True),
        (Exp::TimingInt { v, unit }, asg::Literal::TimingIntLiteral(t)) => *t.value() == *v && unit_name(t.time_unit()) == *unit,
        (Exp::TimingFloat { v, unit }, asg::Literal::TimingFloatLiteral(t)) => feq(*t.value(), *v) && unit_name(t.time_unit()) == *unit,
        (Exp::ImagInt { v, neg }, asg::Literal::ImaginaryInt(i)) => *i.value() == *v && *i.sign() == !*neg,
        (Exp::ImagFloat { v, neg }, asg::Literal::ImaginaryFloat(f)) => float_of(f).map(|g| feq(g, if *neg { -*v } else { *v })).unwrap_or(false),
        (Exp::Bool(b), asg::Literal::Bool(l)) => *l.value() == *b,
        _ => false,
    };
    if !ok {
        fail(ctx, "graph literal", format!("the graph holds {:?} of type {:?}, expected {:?}", lit, ty, c.exp));
    }
    ctx.outcome(fnv_str(&format!("{:?}", c.exp)));
    if c.nontrivial {
        ctx.mark_nontrivial(fnv_str(&c.text));
    }
}

// ---------------------------------------------------------------------------------------
// spelling generators

pub fn int_values() -> Vec<u128> {
    let mut v: Vec<u128> = (0..=4096u128).collect();
    for k in 0..=127u32 {
        let p = 1u128 << k;
        v.push(p);
        v.push(p + 1);
        v.push(p - 1);
    }
    v.push(u128::MAX);
    v.push(u128::MAX - 1);
    let pats: [u128; 16] = [
        0x0123_4567_89ab_cdef, 0xfedc_ba98_7654_3210, 0xdead_beef, 0xcafe_babe_0000_0001, 0xaaaa_aaaa_aaaa_aaaa, 0x5555_5555_5555_5555,
        0xffff_0000_ffff_0000, 1234567890123456789, 9999999999, 1000000007, 0o7654321, 0b1011_0111_0111_1011, 0xabcdef, 0xABCDEF0123, 18446744073709551615, 18446744073709551616,
    ];
    for p in pats {
        v.push(p);
        v.push(p.wrapping_mul(0x1_0000_0001));
        v.push(p << 17);
        v.push(!p >> 3);
    }
    v.sort_unstable();
    v.dedup();
    v
}

fn digits(v: u128, radix: u32, upper: bool) -> String {
    let s = match radix {
        2 => format!("{:b}", v),
        8 => format!("{:o}", v),
        16 => format!("{:x}", v),
        _ => format!("{}", v),
    };
    if upper {
        s.to_uppercase()
    } else {
        s
    }
}

/// All legal single-underscore placements for up to 6 digits, a few groupings beyond.
fn underscore_variants(d: &str) -> Vec<String> {
    let n = d.len();
    let mut out = Vec::new();
    if n <= 1 {
        return out;
    }
    if n <= 6 {
        for mask in 1u32..(1 << (n - 1)) {
            let mut s = String::new();
            for (i, c) in d.chars().enumerate() {
                s.push(c);
                if i + 1 < n && mask & (1 << i) != 0 {
                    s.push('_');
                }
            }
            out.push(s);
        }
    } else {
        for group in [3usize, 4] {
            let mut s = String::new();
            for (i, c) in d.chars().enumerate() {
                if i > 0 && (n - i) % group == 0 {
                    s.push('_');
                }
                s.push(c);
            }
            out.push(s);
        }
        // one underscore after the first digit, one before the last
        out.push(format!("{}_{}", &d[..1], &d[1..]));
        out.push(format!("{}_{}", &d[..n - 1], &d[n - 1..]));
    }
    out
}

pub fn int_spellings(v: u128) -> Vec<(String, bool)> {
    let mut out = Vec::new();
    for (radix, prefixes) in [(10u32, vec![""]), (2, vec!["0b", "0B"]), (8, vec!["0o", "0O"]), (16, vec!["0x", "0X"])] {
        for upper in [false, true] {
            if upper && radix != 16 {
                continue;
            }
            let d = digits(v, radix, upper);
            for p in &prefixes {
                out.push((format!("{}{}", p, d), radix != 10));
                for u in underscore_variants(&d) {
                    out.push((format!("{}{}", p, u), true));
                }
            }
        }
    }
    out
}

fn placements(lit: &str, nontrivial: bool, mk: &dyn Fn(bool) -> Exp, with_init: Option<&str>) -> Vec<Case> {
    let mut v = vec![
        Case { text: format!("{};", lit), exp: mk(false), nontrivial },
        Case { text: format!("-{};", lit), exp: mk(true), nontrivial: true },
        Case { text: format!("- {};", lit), exp: mk(true), nontrivial: true },
    ];
    if let Some(ty) = with_init {
        v.push(Case { text: format!("{} w = {};", ty, lit), exp: mk(false), nontrivial });
        v.push(Case { text: format!("{} w = -{};", ty, lit), exp: mk(true), nontrivial: true });
    }
    v
}

pub const UNITS: [(&str, &str); 6] = [("dt", "dt"), ("ns", "ns"), ("us", "us"), ("µs", "us"), ("ms", "ms"), ("s", "s")];

pub fn int_cases(v: u128) -> Vec<Case> {
    let mut out = Vec::new();
    for (sp, nt) in int_spellings(v) {
        out.extend(placements(&sp, nt, &|neg| Exp::Int { v, neg }, Some("int[128]")));
    }
    // units: decimal and one prefixed spelling, glued and spaced
    let dec = digits(v, 10, false);
    for (u, canon) in UNITS {
        for glue in ["", " ", "\t"] {
            out.push(Case { text: format!("{}{}{};", dec, glue, u), exp: Exp::TimingInt { v, unit: canon }, nontrivial: true });
        }
    }
    for glue in ["", " "] {
        out.push(Case { text: format!("{}{}im;", dec, glue), exp: Exp::ImagInt { v, neg: false }, nontrivial: true });
        out.push(Case { text: format!("-{}{}im;", dec, glue), exp: Exp::ImagInt { v, neg: true }, nontrivial: true });
    }
    out
}

pub fn float_cases() -> Vec<Case> {
    let mut out = Vec::new();
    let mantissas = ["0", "1", "5", "12", "007", "1_000", "9_9"];
    let fractions = ["", ".", ".0", ".5", ".25", ".000001", ".1_2", ".999999999999999999999"];
    let exponents = ["", "e0", "e1", "E+2", "e-3", "e10", "e-10", "e308", "E-324", "e1_0", "e+0_1"];
    let mut spellings: Vec<String> = Vec::new();
    for m in mantissas {
        for f in fractions {
            for e in exponents {
                if f.is_empty() && e.is_empty() {
                    continue; // an integer
                }
                spellings.push(format!("{}{}{}", m, f, e));
            }
        }
    }
    for f in [".5", ".25", ".0", ".000001", ".1_2", ".007"] {
        for e in exponents {
            spellings.push(format!("{}{}", f, e));
        }
    }
    // doubles whose shortest decimal needs 17 significant digits, at every magnitude, and the
    // borders of the format (largest, smallest normal, smallest subnormal, 2^53 + 1, powers of
    // ten around the switch to scientific notation)
    for sp in [
        "1.2345678901234567e30", "3.0000000000000004e-9", "12345678901234567890.0", "9007199254740993.0", "1.7976931348623157e308", "2.2250738585072014e-308",
        "4.9406564584124654e-324", "5e-324", "0.30000000000000004", "123456789.12345678", "1.0000000000000002", "9999999999999998.0", "1e15", "1e16", "1e17", "1e21", "1e22", "1e23",
        "1e-4", "1e-5", "0.00009999999999999999", "8.5e-5", "6.02214076e23", "1.2345678901234567e-30", "7.2057594037927933e16", "0.1e-6", "1234567890123456.7e3",
    ] {
        spellings.push(sp.to_string());
    }
    for sp in spellings {
        let clean = sp.replace('_', "");
        let v = match clean.parse::<f64>() {
            Ok(v) => v,
            Err(_) => continue,
        };
        out.extend(placements(&sp, true, &|neg| Exp::Float { v, neg }, Some("float[64]")));
        for (u, canon) in UNITS {
            // a float ending in `.` or in an exponent cannot be glued to a unit that starts like an identifier part
            out.push(Case { text: format!("{} {};", sp, u), exp: Exp::TimingFloat { v, unit: canon }, nontrivial: true });
            if !sp.ends_with('.') {
                out.push(Case { text: format!("{}{};", sp, u), exp: Exp::TimingFloat { v, unit: canon }, nontrivial: true });
            }
        }
        out.push(Case { text: format!("{} im;", sp), exp: Exp::ImagFloat { v, neg: false }, nontrivial: true });
        out.push(Case { text: format!("-{} im;", sp), exp: Exp::ImagFloat { v, neg: true }, nontrivial: true });
        if !sp.ends_with('.') {
            out.push(Case { text: format!("{}im;", sp), exp: Exp::ImagFloat { v, neg: false }, nontrivial: true });
        }
    }
    out
}

pub fn bit_cases(lo: usize, hi: usize) -> Vec<Case> {
    let mut out = Vec::new();
    let mut push = |bits: String, out: &mut Vec<Case>| {
        let n = bits.len();
        for q in ['"', '\''] {
            out.push(Case { text: format!("{}{}{};", q, bits, q), exp: Exp::Bits { bits: bits.clone() }, nontrivial: n > 1 });
        }
        out.push(Case { text: format!("bit[{}] w = \"{}\";", n, bits), exp: Exp::Bits { bits: bits.clone() }, nontrivial: true });
        if n >= 2 {
            // single underscores every 4 bits and after the first bit
            let mut s = String::new();
            for (i, c) in bits.chars().enumerate() {
                if i > 0 && i % 4 == 0 {
                    s.push('_');
                }
                s.push(c);
            }
            if s.contains('_') {
                out.push(Case { text: format!("\"{}\";", s), exp: Exp::Bits { bits: bits.clone() }, nontrivial: true });
            }
            out.push(Case { text: format!("'{}_{}';", &bits[..1], &bits[1..]), exp: Exp::Bits { bits: bits.clone() }, nontrivial: true });
        }
    };
    for n in lo..=hi.min(12) {
        for v in 0..(1u32 << n) {
            let bits: String = (0..n).rev().map(|i| if v >> i & 1 == 1 { '1' } else { '0' }).collect();
            push(bits, &mut out);
        }
    }
    if hi > 12 {
        for n in [13usize, 16, 31, 32, 33, 63, 64, 65, 127, 128, 129, 255, 256] {
            if n > hi {
                continue;
            }
            push("0".repeat(n), &mut out);
            push("1".repeat(n), &mut out);
            push((0..n).map(|i| if i % 2 == 0 { '1' } else { '0' }).collect(), &mut out);
            for hot in [0, n / 2, n - 1] {
                push((0..n).map(|i| if i == hot { '1' } else { '0' }).collect(), &mut out);
            }
        }
    }
    out
}

pub struct Lits {
    pub family: &'static str,
    pub values: Vec<u128>,
}

impl Lits {
    fn cases_of_block(&self, block: u64) -> Vec<Case> {
        match self.family {
            "int" => {
                let lo = block as usize * 16;
                let hi = (lo + 16).min(self.values.len());
                self.values[lo..hi].iter().flat_map(|v| int_cases(*v)).collect()
            }
            "float" => float_cases(),
            "bits" => match block {
                0 => bit_cases(1, 8),
                1 => bit_cases(9, 10),
                2 => bit_cases(11, 11),
                3 => bit_cases(12, 12),
                _ => {
                    let mut v = bit_cases(13, 256);
                    v.retain(|c| match &c.exp {
                        Exp::Bits { bits } => bits.len() > 12,
                        _ => true,
                    });
                    v
                }
            },
            _ => vec![
                Case { text: "true;".into(), exp: Exp::Bool(true), nontrivial: true },
                Case { text: "false;".into(), exp: Exp::Bool(false), nontrivial: true },
                Case { text: "bool w = true;".into(), exp: Exp::Bool(true), nontrivial: true },
                Case { text: "bool w = false;".into(), exp: Exp::Bool(false), nontrivial: true },
            ],
        }
    }
}

impl Space for Lits {
    fn name(&self) -> String {
        format!("LIT/{}", self.family)
    }
    fn describe(&self) -> Value {
        json!({"space": "LIT", "family": self.family, "integer_values": self.values.len(),
               "note": "each value/spelling as expression statement, under unary minus (glued and spaced), as initializer, with every unit"})
    }
    fn num_blocks(&self) -> u64 {
        match self.family {
            "int" => ((self.values.len() + 15) / 16) as u64,
            "bits" => 5,
            _ => 1,
        }
    }
    fn run_block(&self, block: u64, ctx: &mut Ctx) {
        for c in self.cases_of_block(block) {
            check(&c, ctx);
        }
    }
    fn replay(&self, case: &Value, ctx: &mut Ctx) {
        // regenerate by text: search the family for the case with this text
        let text = case["text"].as_str().unwrap_or("");
        for b in 0..self.num_blocks() {
            if let Some(c) = self.cases_of_block(b).into_iter().find(|c| c.text == text) {
                check(&c, ctx);
                return;
            }
        }
    }
    fn block_timeout_s(&self) -> u64 {
        120
    }
}

pub fn spaces(tier: Tier, _seed: u64) -> Vec<Box<dyn Space>> {
    let values = int_values();
    let _ = tier;
    vec![
        Box::new(Lits { family: "int", values }),
        Box::new(Lits { family: "float", values: vec![] }),
        Box::new(Lits { family: "bits", values: vec![] }),
        Box::new(Lits { family: "bool", values: vec![] }),
    ]
}
