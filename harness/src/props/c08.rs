//! C08 — expressions are typed consistently; conversions are explicit or diagnosed.

use crate::core::*;
use crate::props::Meta;
use oq3_semantics::asg;
use oq3_semantics::symbols::{SymbolTable, SymbolType};
use oq3_semantics::syntax_to_semantics::parse_source_string;
use oq3_semantics::types::{ArrayDims, IsConst, Type};
use serde_json::{json, Value};

pub fn meta() -> Meta {
    Meta {
        level: "exploration",
        rule: "target x value decision table: every scalar type spelling of the tier (9 base types x widths {none, 8, 32, 64}, const and non-const) as target of a declaration with initializer and of an assignment, with the value given as each literal form (int, negative int, float, negative float, imaginary int/float, bool, bit strings, duration), as variable and const variable of each type, as explicit cast to each type, as call of a subroutine returning each type, as measurement of a qubit and of a register, and as arithmetic expression over every pair of numeric operand types and 10 operators (+ - * / % << >> & | ^); on every expression node of the graph the node-level typing rules are checked, on every declaration/assignment the 'equal up to const or diagnosed' rule and the must-diagnose rule; non-trivial = programs whose value type differs from the target type; outcomes = distinct (value type, outcome) pairs",
        assumptions: vec![
            "the common type of an arithmetic node is the library's own implicit_cast_type of the operand types (whether that function is a correct join is C20)",
            "over-diagnosis of permitted widenings is not a violation",
            "programs on which the analyser panics are skipped (C03)",
        ],
    }
}

#[derive(Clone, Debug, PartialEq)]
pub struct TySpec {
    pub spell: &'static str,
    pub ty: Type,
    /// a literal that initialises a const of this type without a diagnostic (if any)
    pub lit: Option<&'static str>,
    pub ident: &'static str,
}

pub fn type_specs(thorough: bool) -> Vec<TySpec> {
    let f = IsConst::False;
    let mut v = vec![
        TySpec { spell: "int", ty: Type::Int(None, f.clone()), lit: Some("1"), ident: "i0" },
        TySpec { spell: "int[8]", ty: Type::Int(Some(8), f.clone()), lit: Some("1"), ident: "i8" },
        TySpec { spell: "int[32]", ty: Type::Int(Some(32), f.clone()), lit: Some("1"), ident: "i32" },
        TySpec { spell: "uint[8]", ty: Type::UInt(Some(8), f.clone()), lit: Some("1"), ident: "u8" },
        TySpec { spell: "uint[32]", ty: Type::UInt(Some(32), f.clone()), lit: Some("1"), ident: "u32" },
        TySpec { spell: "float", ty: Type::Float(None, f.clone()), lit: Some("1.5"), ident: "f0" },
        TySpec { spell: "float[32]", ty: Type::Float(Some(32), f.clone()), lit: Some("1.5"), ident: "f32" },
        TySpec { spell: "float[64]", ty: Type::Float(Some(64), f.clone()), lit: Some("1.5"), ident: "f64" },
        TySpec { spell: "angle[8]", ty: Type::Angle(Some(8), f.clone()), lit: None, ident: "a8" },
        TySpec { spell: "angle[32]", ty: Type::Angle(Some(32), f.clone()), lit: None, ident: "a32" },
        TySpec { spell: "complex", ty: Type::Complex(None, f.clone()), lit: Some("2.5im"), ident: "c0" },
        TySpec { spell: "complex[float[32]]", ty: Type::Complex(Some(32), f.clone()), lit: Some("2.5im"), ident: "c32" },
        TySpec { spell: "bit", ty: Type::Bit(f.clone()), lit: None, ident: "b0" },
        TySpec { spell: "bit[4]", ty: Type::BitArray(ArrayDims::D1(4), f.clone()), lit: Some("\"0101\""), ident: "b4" },
        TySpec { spell: "bool", ty: Type::Bool(f.clone()), lit: Some("true"), ident: "bo" },
        TySpec { spell: "duration", ty: Type::Duration(f.clone()), lit: Some("10ns"), ident: "du" },
    ];
    {
        v.extend(vec![
            TySpec { spell: "int[64]", ty: Type::Int(Some(64), f.clone()), lit: Some("1"), ident: "i64" },
            TySpec { spell: "uint", ty: Type::UInt(None, f.clone()), lit: Some("1"), ident: "u0" },
            TySpec { spell: "uint[64]", ty: Type::UInt(Some(64), f.clone()), lit: Some("1"), ident: "u64" },
            TySpec { spell: "float[8]", ty: Type::Float(Some(8), f.clone()), lit: Some("1.5"), ident: "f8" },
            TySpec { spell: "angle", ty: Type::Angle(None, f.clone()), lit: None, ident: "a0" },
            TySpec { spell: "angle[64]", ty: Type::Angle(Some(64), f.clone()), lit: None, ident: "a64" },
            TySpec { spell: "complex[float[64]]", ty: Type::Complex(Some(64), f.clone()), lit: Some("2.5im"), ident: "c64" },
            TySpec { spell: "complex[float[8]]", ty: Type::Complex(Some(8), f.clone()), lit: Some("2.5im"), ident: "c8" },
            TySpec { spell: "bit[8]", ty: Type::BitArray(ArrayDims::D1(8), f.clone()), lit: Some("\"01010101\""), ident: "b8" },
            TySpec { spell: "stretch", ty: Type::Stretch(f.clone()), lit: None, ident: "st" },
        ]);
    }
    if thorough {
        v.extend(vec![
            TySpec { spell: "int[16]", ty: Type::Int(Some(16), f.clone()), lit: Some("1"), ident: "i16" },
            TySpec { spell: "int[1]", ty: Type::Int(Some(1), f.clone()), lit: Some("1"), ident: "i1" },
            TySpec { spell: "uint[16]", ty: Type::UInt(Some(16), f.clone()), lit: Some("1"), ident: "u16" },
            TySpec { spell: "uint[1]", ty: Type::UInt(Some(1), f.clone()), lit: Some("1"), ident: "u1" },
            TySpec { spell: "float[16]", ty: Type::Float(Some(16), f.clone()), lit: Some("1.5"), ident: "f16" },
            TySpec { spell: "angle[16]", ty: Type::Angle(Some(16), f.clone()), lit: None, ident: "a16" },
            TySpec { spell: "complex[float[16]]", ty: Type::Complex(Some(16), f.clone()), lit: Some("2.5im"), ident: "c16" },
            TySpec { spell: "bit[1]", ty: Type::BitArray(ArrayDims::D1(1), f.clone()), lit: Some("\"1\""), ident: "b1" },
        ]);
    }
    v
}

pub fn prelude(specs: &[TySpec]) -> String {
    let mut s = String::from("qubit r;\nqubit[4] q;\nqubit[1] q1;\nqubit[2] q2;\nqubit[8] q8;\n");
    for t in specs {
        s.push_str(&format!("{} v_{};\n", t.spell, t.ident));
        if let Some(l) = t.lit {
            s.push_str(&format!("const {} k_{} = {};\n", t.spell, t.ident, l));
        }
        s.push_str(&format!("def r_{}() -> {} {{ }}\n", t.ident, t.spell));
    }
    s
}

/// (text of the value expression, value form tag, negative-literal flag, is-constant-value)
pub fn value_forms(specs: &[TySpec]) -> Vec<(String, String, bool)> {
    let mut v: Vec<(String, String, bool)> = Vec::new();
    for (l, tag) in [("1", "lit_int"), ("-1", "lit_negint"), ("300", "lit_int_big"), ("1.5", "lit_float"), ("-1.5", "lit_negfloat"), ("2im", "lit_imag_int"), ("2.5im", "lit_imag_float"), ("-2.5im", "lit_neg_imag_float"), ("- 2.5 im", "lit_neg_imag_float_spaced"), ("true", "lit_bool"), ("\"0101\"", "lit_bits4"), ("\"1\"", "lit_bits1"), ("10ns", "lit_duration"),
        // the same classes in their other spellings: digit separators, radices, exponents, units
        ("\"0101_0101\"", "lit_bits8_sep"), ("\"0_1_0_1\"", "lit_bits4_sep"), ("1_0", "lit_int_sep"), ("0x1F", "lit_int_hex"), ("0b1_01", "lit_int_bin_sep"), ("0o17", "lit_int_oct"),
        ("1_0.5", "lit_float_sep"), ("1e2", "lit_float_exp"), ("3_0im", "lit_imag_int_sep"), ("1e1im", "lit_imag_float_exp"), ("1_0 ns", "lit_duration_sep"), ("2.5us", "lit_duration_float"), ("1e1dt", "lit_duration_float_exp")] {
        v.push((l.to_string(), tag.to_string(), tag == "lit_negint"));
    }
    for t in specs {
        v.push((format!("v_{}", t.ident), format!("var:{}", t.spell), false));
        if t.lit.is_some() {
            v.push((format!("k_{}", t.ident), format!("const:{}", t.spell), false));
        }
        if !matches!(t.ty, Type::Duration(_) | Type::Stretch(_) | Type::Bit(_) | Type::BitArray(..)) {
            v.push((format!("{}(v_i0)", t.spell), format!("cast:{}", t.spell), false));
            // casts whose operand already has the cast's type: the cast must stay a cast
            v.push((format!("{}({}(v_i0))", t.spell, t.spell), format!("castcast:{}", t.spell), false));
            if let Some(l) = t.lit {
                v.push((format!("{}(k_{})", t.spell, t.ident), format!("castconst:{}", t.spell), false));
                v.push((format!("{}({})", t.spell, l), format!("castlit:{}", t.spell), false));
            }
        }
        v.push((format!("r_{}()", t.ident), format!("call:{}", t.spell), false));
    }
    v.push(("measure r".into(), "measure_qubit".into(), false));
    v.push(("measure q".into(), "measure_reg".into(), false));
    // registers of every small length (a register of length 1 is still a register), slices,
    // single elements and hardware qubits
    v.push(("measure q1".into(), "measure_reg1".into(), false));
    v.push(("measure q2".into(), "measure_reg2".into(), false));
    v.push(("measure q8".into(), "measure_reg8".into(), false));
    v.push(("measure q[0]".into(), "measure_elem".into(), false));
    v.push(("measure q1[0]".into(), "measure_elem1".into(), false));
    v.push(("measure $0".into(), "measure_hw".into(), false));
    let numeric: Vec<&TySpec> = specs.iter().filter(|t| matches!(t.ty, Type::Int(..) | Type::UInt(..) | Type::Float(..) | Type::Complex(..))).collect();
    for a in &numeric {
        for b in &numeric {
            for op in ["+", "-", "*", "/", "%", "<<", ">>", "&", "|", "^"] {
                v.push((format!("v_{} {} v_{}", a.ident, op, b.ident), format!("arith:{}{}{}", a.spell, op, b.spell), false));
            }
        }
        v.push((format!("v_{} + 1", a.ident), format!("arith:{}+lit", a.spell), false));
        v.push((format!("v_{} << 2", a.ident), format!("arith:{}<<lit", a.spell), false));
        v.push((format!("1 >> v_{}", a.ident), format!("arith:lit>>{}", a.spell), false));
        v.push((format!("v_{} & 3", a.ident), format!("arith:{}&lit", a.spell), false));
        v.push((format!("1.5 * v_{}", a.ident), format!("arith:flit*{}", a.spell), false));
        if a.lit.is_some() {
            v.push((format!("k_{} + k_{}", a.ident, a.ident), format!("arith:const{}+const", a.spell), false));
        }
    }
    v.push(("1 + 2".into(), "arith:lit+lit".into(), false));
    v.push(("1.5 + 2".into(), "arith:flit+lit".into(), false));
    v.push(("-v_i0".into(), "neg:int".into(), false));
    v.push(("-v_f64".into(), "neg:float[64]".into(), false));
    v
}

// ---------------------------------------------------------------------------------------
// kinds for the must-diagnose rule

#[derive(Clone, Copy, PartialEq, Eq, Debug)]
enum Kind {
    Int,
    UInt,
    Float,
    Complex,
    Angle,
    Bit,
    BitReg,
    Bool,
    Duration,
    Stretch,
    Other,
}

fn kind(t: &Type) -> Kind {
    match t {
        Type::Int(..) => Kind::Int,
        Type::UInt(..) => Kind::UInt,
        Type::Float(..) => Kind::Float,
        Type::Complex(..) => Kind::Complex,
        Type::Angle(..) => Kind::Angle,
        Type::Bit(_) => Kind::Bit,
        Type::BitArray(..) => Kind::BitReg,
        Type::Bool(_) => Kind::Bool,
        Type::Duration(_) => Kind::Duration,
        Type::Stretch(_) => Kind::Stretch,
        _ => Kind::Other,
    }
}

fn tower(k: Kind) -> Option<u8> {
    match k {
        Kind::Int | Kind::UInt => Some(0),
        Kind::Float => Some(1),
        Kind::Complex => Some(2),
        _ => None,
    }
}

fn unconst(t: &Type) -> Type {
    use Type::*;
    let f = IsConst::False;
    match t {
        Bit(_) => Bit(f),
        Int(w, _) => Int(*w, f),
        UInt(w, _) => UInt(*w, f),
        Float(w, _) => Float(*w, f),
        Angle(w, _) => Angle(*w, f),
        Complex(w, _) => Complex(*w, f),
        Bool(_) => Bool(f),
        Duration(_) => Duration(f),
        Stretch(_) => Stretch(f),
        BitArray(d, _) => BitArray(d.clone(), f),
        other => other.clone(),
    }
}

/// Must a conversion of a value of type `v` into the target `t` be diagnosed?
fn must_diagnose(t: &Type, v: &Type, neg_literal: bool) -> Option<&'static str> {
    let (kt, kv) = (kind(t), kind(v));
    if kv == Kind::Other || kt == Kind::Other {
        return None; // undefined / todo types: the statement does not speak about them
    }
    if neg_literal && kt == Kind::UInt {
        return Some("negative literal to unsigned");
    }
    if let (Some(a), Some(b)) = (tower(kt), tower(kv)) {
        if b > a {
            return Some("kind goes down the tower");
        }
    }
    let special = |k: Kind| matches!(k, Kind::Bit | Kind::BitReg | Kind::Bool | Kind::Duration | Kind::Angle);
    if kt != kv && (special(kt) || special(kv)) {
        return Some("to or from bit, bool, duration or angle of another kind");
    }
    if kt == kv && !v.is_const() {
        if let (Type::BitArray(a, _), Type::BitArray(b, _)) = (t, v) {
            if a != b {
                return None; // register lengths: the statement does not list them
            }
        }
        let narrower = match (t.width(), v.width()) {
            (Some(a), Some(b)) => b > a,
            (Some(_), None) => matches!(kt, Kind::Int | Kind::UInt | Kind::Float | Kind::Complex | Kind::Angle),
            _ => false,
        };
        if narrower {
            return Some("width narrowing of a non-constant value");
        }
    }
    None
}

// ---------------------------------------------------------------------------------------
// node-level typing rules

fn check_texpr(t: &asg::TExpr, table: &SymbolTable, out: &mut Vec<String>) {
    let ty = t.get_type();
    match t.expression() {
        asg::Expr::Identifier(Ok(id)) => {
            let st = table[id].symbol_type();
            if st != ty {
                out.push(format!("identifier `{}` typed {:?} but its symbol has type {:?}", table[id].name(), ty, st));
            }
        }
        asg::Expr::Identifier(Err(_)) => {
            if *ty != Type::Undefined {
                out.push(format!("unresolved identifier typed {:?}", ty));
            }
        }
        asg::Expr::Literal(l) => {
            let ok = match l {
                asg::Literal::Bool(_) => matches!(ty, Type::Bool(IsConst::True)),
                asg::Literal::Int(_) => matches!(ty, Type::Int(_, IsConst::True)),
                asg::Literal::Float(_) => matches!(ty, Type::Float(_, IsConst::True)),
                asg::Literal::ImaginaryInt(_) | asg::Literal::ImaginaryFloat(_) => matches!(ty, Type::Complex(_, IsConst::True)),
                asg::Literal::BitString(b) => {
                    let n = b.value().chars().filter(|c| *c == '0' || *c == '1').count();
                    *ty == Type::BitArray(ArrayDims::D1(n), IsConst::True)
                }
                asg::Literal::TimingIntLiteral(_) | asg::Literal::TimingFloatLiteral(_) => matches!(ty, Type::Duration(IsConst::True)),
                asg::Literal::Array => true,
            };
            if !ok {
                out.push(format!("literal {:?} typed {:?}", l, ty));
            }
        }
        asg::Expr::Cast(c) => {
            if c.get_type() != ty {
                out.push(format!("cast to {:?} typed {:?}", c.get_type(), ty));
            }
            check_texpr(c.operand(), table, out);
        }
        asg::Expr::MeasureExpression(m) => {
            let want = match m.operand().get_type() {
                Type::Qubit | Type::HardwareQubit => Some(Type::Bit(IsConst::False)),
                Type::QubitArray(d) => Some(Type::BitArray(d.clone(), IsConst::False)),
                _ => None,
            };
            if let Some(w) = want {
                if w != *ty {
                    out.push(format!("measurement of {:?} typed {:?}", m.operand().get_type(), ty));
                }
            }
            check_texpr(m.operand(), table, out);
        }
        asg::Expr::BinaryExpr(b) => {
            if let asg::BinaryOp::ArithOp(op) = b.op() {
                let inner = |e: &asg::TExpr| -> Vec<Type> {
                    let mut v = vec![e.get_type().clone()];
                    if let asg::Expr::Cast(c) = e.expression() {
                        v.push(c.operand().get_type().clone());
                    }
                    v
                };
                let common_ok = inner(b.left()).iter().any(|l| inner(b.right()).iter().any(|r| asg::implicit_cast_type(op, l, r) == *ty));
                if !common_ok {
                    out.push(format!("{:?} node typed {:?}, which is not the common type of its operands {:?} and {:?}", op, ty, b.left().get_type(), b.right().get_type()));
                }
                if *ty != Type::Void {
                    for (side, e) in [("left", b.left()), ("right", b.right())] {
                        if e.get_type() != ty {
                            out.push(format!("{} operand of the {:?} node has type {:?}, neither the node's type {:?} nor a cast to it", side, op, e.get_type(), ty));
                        }
                    }
                }
            }
            check_texpr(b.left(), table, out);
            check_texpr(b.right(), table, out);
        }
        asg::Expr::UnaryExpr(u) => check_texpr(u.operand(), table, out),
        asg::Expr::SubroutineCall(c) => {
            for p in c.params().unwrap_or(&[]) {
                check_texpr(p, table, out);
            }
        }
        asg::Expr::Return(r) => {
            if let Some(v) = r.value() {
                check_texpr(v, table, out);
            }
        }
        _ => {}
    }
}

fn check_stmt(s: &asg::Stmt, table: &SymbolTable, out: &mut Vec<String>) {
    match s {
        asg::Stmt::DeclareClassical(d) => {
            if let Some(i) = d.initializer() {
                check_texpr(i, table, out);
            }
        }
        asg::Stmt::Assignment(a) => check_texpr(a.rvalue(), table, out),
        asg::Stmt::ExprStmt(t) => check_texpr(t, table, out),
        asg::Stmt::DefStmt(d) => {
            for s in d.block().statements() {
                check_stmt(s, table, out);
            }
        }
        _ => {}
    }
}

pub struct Table {
    pub specs: Vec<TySpec>,
    pub values: Vec<(String, String, bool)>,
    pub assign: bool,
}

impl Table {
    fn check(&self, ti: usize, konst: bool, vi: usize, ctx: &mut Ctx) {
        let t = &self.specs[ti];
        let (vtext, vtag, neg) = &self.values[vi];
        let pre = prelude(&self.specs);
        let stmt = if self.assign { format!("v_{} = {};", t.ident, vtext) } else { format!("{}{} w = {};", if konst { "const " } else { "" }, t.spell, vtext) };
        let text = format!("{}{}\n", pre, stmt);
        let lo = pre.len();
        let hi = lo + stmt.len();
        let case = json!({"target": ti, "const": konst, "value": vi, "assign": self.assign, "witness": stmt});
        if !ctx.begin(|| case.clone()) {
            return;
        }
        let class = format!("{} <- {}", t.spell, vtag.split(':').next().unwrap_or(vtag));
        let mut fail = |ctx: &mut Ctx, rule: &str, locus: String, detail: String| ctx.fail(Failure { rule: rule.into(), witness: stmt.clone(), locus, detail, case: case.clone() });
        let t2 = text.clone();
        let r = catch(move || {
            let res = parse_source_string(t2.as_str(), None);
            if res.any_syntax_errors() {
                return None;
            }
            let table = res.symbol_table().clone();
            let mut node_issues = Vec::new();
            for s in res.program().stmts() {
                check_stmt(s, &table, &mut node_issues);
            }
            let last = res.program().stmts().last().cloned();
            let diags: Vec<(String, usize, usize)> = res.semantic_errors().iter().map(|e| (format!("{:?}", e.kind()), usize::from(e.range().start()), usize::from(e.range().end()))).collect();
            Some((node_issues, last, diags))
        });
        let (node_issues, last, diags) = match r {
            Err(_) => {
                ctx.count("skipped_analysis_panics", 1);
                return;
            }
            Ok(None) => {
                ctx.count("skipped_syntax_diagnostics", 1);
                return;
            }
            Ok(Some(x)) => x,
        };
        for issue in &node_issues {
            let what = issue.split(' ').take(2).collect::<Vec<_>>().join(" ");
            fail(ctx, "node_type", format!("{} | {}", what, vtag.split(':').next().unwrap_or(vtag)), issue.clone());
        }
        let type_diag = diags.iter().any(|(k, s, e)| (k.starts_with("IncompatibleTypes") || k.starts_with("CastError") || k.starts_with("IncompatibleDimension")) && *s >= lo && *e <= hi);
        let value = match &last {
            Some(asg::Stmt::DeclareClassical(d)) if !self.assign => d.initializer().cloned(),
            Some(asg::Stmt::Assignment(a)) if self.assign => Some(a.rvalue().clone()),
            _ => None,
        };
        let value = match value {
            Some(v) => v,
            None => {
                fail(ctx, "type_eq_or_diag", format!("statement missing | {}", class), "the declaration / assignment is not the last statement of the graph".into());
                return;
            }
        };
        let target_ty = if konst {
            // the declared type with the const flag set
            let mut ty = t.ty.clone();
            ty = match ty {
                Type::Int(w, _) => Type::Int(w, IsConst::True),
                Type::UInt(w, _) => Type::UInt(w, IsConst::True),
                Type::Float(w, _) => Type::Float(w, IsConst::True),
                Type::Angle(w, _) => Type::Angle(w, IsConst::True),
                Type::Complex(w, _) => Type::Complex(w, IsConst::True),
                Type::Bit(_) => Type::Bit(IsConst::True),
                Type::BitArray(d, _) => Type::BitArray(d, IsConst::True),
                Type::Bool(_) => Type::Bool(IsConst::True),
                Type::Duration(_) => Type::Duration(IsConst::True),
                Type::Stretch(_) => Type::Stretch(IsConst::True),
                o => o,
            };
            ty
        } else {
            t.ty.clone()
        };
        // the source value: through a final cast inserted by the analyser
        let (value_ty, via_cast_to) = match value.expression() {
            asg::Expr::Cast(c) => (c.operand().get_type().clone(), Some(c.get_type().clone())),
            _ => (value.get_type().clone(), None),
        };
        // for explicit source casts the value form *is* a cast: its own type is the value type
        // a literal reaches the graph as a literal of the class it is written in
        let written_class = match vtag.as_str() {
            "lit_int" | "lit_negint" | "lit_int_big" | "lit_int_sep" | "lit_int_hex" | "lit_int_bin_sep" | "lit_int_oct" => Some("Int"),
            "lit_float" | "lit_negfloat" | "lit_float_sep" | "lit_float_exp" => Some("Float"),
            "lit_imag_int" | "lit_imag_int_sep" => Some("ImaginaryInt"),
            "lit_imag_float" | "lit_neg_imag_float" | "lit_neg_imag_float_spaced" | "lit_imag_float_exp" => Some("ImaginaryFloat"),
            "lit_bool" => Some("Bool"),
            "lit_bits4" | "lit_bits1" | "lit_bits8_sep" | "lit_bits4_sep" => Some("BitString"),
            "lit_duration" | "lit_duration_sep" => Some("TimingIntLiteral"),
            "lit_duration_float" | "lit_duration_float_exp" => Some("TimingFloatLiteral"),
            _ => None,
        };
        if let Some(want) = written_class {
            let mut e: &asg::TExpr = &value;
            while let asg::Expr::Cast(c) = e.expression() {
                e = c.operand();
            }
            if let asg::Expr::Literal(l) = e.expression() {
                let got = format!("{:?}", l);
                let got = got.split('(').next().unwrap_or("").to_string();
                if got != want {
                    fail(ctx, "node_type", format!("{} [literal class]", class), format!("the literal `{}` is written as {} but reaches the graph as {}", vtext, want, got));
                }
            }
        }
        let source_is_cast = vtag.starts_with("cast");
        if source_is_cast {
            // an explicit cast stays a Cast node of the written type (checked where the written
            // type differs from the target, so that an inserted conversion cannot stand in for it)
            let spelled = vtag.split(':').nth(1).unwrap_or("");
            if let Some(w) = self.specs.iter().find(|s| s.spell == spelled) {
                let written = unconst(&w.ty);
                if written != unconst(&target_ty) {
                    let mut n = 0;
                    let mut e: &asg::TExpr = &value;
                    while let asg::Expr::Cast(c) = e.expression() {
                        if unconst(c.get_type()) == written {
                            n += 1;
                        }
                        e = c.operand();
                    }
                    let want = if vtag.starts_with("castcast:") { 2 } else { 1 };
                    if n < want {
                        fail(ctx, "node_type", format!("{} [explicit cast]", class), format!("the value `{}` is written with {} cast(s) to {:?}, the graph has {}", vtext, want, written, n));
                    }
                }
            }
        }
        let src_ty = if source_is_cast { value.get_type().clone() } else { value_ty.clone() };
        let equal = unconst(value.get_type()) == unconst(&target_ty) && (via_cast_to.is_none() || source_is_cast || via_cast_to.as_ref() == Some(&target_ty));
        ctx.outcome(fnv_mix(fnv_str(&format!("{:?}", src_ty)), (equal as u64) << 1 | type_diag as u64));
        if unconst(&src_ty) != unconst(&target_ty) {
            ctx.mark_nontrivial(fnv_str(&text[lo..]));
        }
        if !equal && !type_diag {
            fail(ctx, "type_eq_or_diag", format!("{} [{:?} -> {:?}]", class, kind(&src_ty), kind(&target_ty)), format!("the value has type {:?}, the target {:?}: neither equal up to const-ness nor diagnosed", value.get_type(), target_ty));
        }
        if let Some(why) = must_diagnose(&target_ty, &src_ty, *neg) {
            if !type_diag {
                fail(ctx, "must_diagnose", format!("{} [{:?} -> {:?}: {}]", class, kind(&src_ty), kind(&target_ty), why), format!("a value of type {:?} is converted to {:?} without any type diagnostic", src_ty, target_ty));
            }
        }
    }
}

impl Space for Table {
    fn name(&self) -> String {
        format!("T-CONV/{}", if self.assign { "assignment" } else { "declaration" })
    }
    fn describe(&self) -> Value {
        json!({"space": "T-CONV", "targets": self.specs.iter().map(|t| t.spell).collect::<Vec<_>>(), "value_forms": self.values.len(),
               "const_targets": !self.assign, "programs": self.specs.len() * self.values.len() * if self.assign { 1 } else { 2 }})
    }
    fn num_blocks(&self) -> u64 {
        (self.specs.len() * if self.assign { 1 } else { 2 }) as u64
    }
    fn run_block(&self, block: u64, ctx: &mut Ctx) {
        let (ti, konst) = if self.assign { (block as usize, false) } else { (block as usize / 2, block % 2 == 1) };
        for vi in 0..self.values.len() {
            self.check(ti, konst, vi, ctx);
        }
    }
    fn replay(&self, case: &Value, ctx: &mut Ctx) {
        let ti = case["target"].as_u64().unwrap_or(0) as usize;
        let vi = case["value"].as_u64().unwrap_or(0) as usize;
        if ti < self.specs.len() && vi < self.values.len() {
            self.check(ti, case["const"].as_bool().unwrap_or(false), vi, ctx);
        }
    }
    fn block_timeout_s(&self) -> u64 {
        180
    }
}

pub fn spaces(tier: Tier, _seed: u64) -> Vec<Box<dyn Space>> {
    let specs = type_specs(tier.is_thorough());
    let values = value_forms(&specs);
    vec![Box::new(Table { specs: specs.clone(), values: values.clone(), assign: false }), Box::new(Table { specs, values, assign: true })]
}
