//! C19 — the symbol table behaves as a stack of scopes under every operation history.
//!
//! Explicit-state exploration over the real transition function: every history over the
//! operation alphabet up to a length bound is executed on a real `SymbolTable` (cloned at
//! branch points) in lock-step with a boring reference model (a vector of ordered maps plus an
//! append-only symbol list).  After every operation the operation's result and the full
//! observation vector are compared.  Deduplication of reference states is used for
//! *reporting* only (states / transitions); the deciding run is the stateless enumeration of
//! all histories, so a hidden implementation variable cannot be masked by the abstraction.

use crate::core::*;
use crate::props::Meta;
use oq3_semantics::symbols::{ScopeType, SymbolError, SymbolId, SymbolTable, SymbolType};
use oq3_semantics::types::{ArrayDims, IsConst, Type};
use serde_json::{json, Value};
use std::collections::BTreeMap;

pub fn meta() -> Meta {
    Meta {
        level: "model_checking",
        rule: "every history of at most L operations over the alphabet {enter local, enter subroutine, exit, bind a|b as int|qubit, lookup a|b} (and a second alphabet adding lookup-or-bind, bind-gate, bind-hardware-qubit and bindings of the built-in names pi and τ), from the initial table and from 16 systematic other start states (among them tables built through Default); each history is executed on the real SymbolTable in lock-step with the reference stack of maps and compared after every operation; a history is non-trivial when it contains at least one successful bind and one successful exit; states = distinct reference states, transitions = distinct (state, operation) pairs, traces = histories executed",
        assumptions: vec![
            "histories longer than the bound are covered only as short suffixes of the systematic start states (depth-50 stacks, 200 prior bindings)",
            "hook oq3_verif: SymbolTable::verif_enter_scope / verif_scope_depth are thin wrappers of the private methods",
        ],
    }
}

#[derive(Clone, Copy, Debug, PartialEq, Eq)]
pub enum Op {
    EnterLocal,
    EnterSub,
    Exit,
    BindAInt,
    BindBInt,
    BindAQubit,
    BindBQubit,
    LookupA,
    LookupB,
    // second alphabet
    LookupOrNewA,
    BindGGate,
    BindHw,
    /// bindings of names spelled like built-ins (legal shadowing in a non-global scope, refused
    /// in the global one)
    BindPiInt,
    BindTauQubit,
}

impl Op {
    pub fn name(self) -> &'static str {
        match self {
            Op::EnterLocal => "enter_local",
            Op::EnterSub => "enter_sub",
            Op::Exit => "exit",
            Op::BindAInt => "bind_a_int",
            Op::BindBInt => "bind_b_int",
            Op::BindAQubit => "bind_a_qubit",
            Op::BindBQubit => "bind_b_qubit",
            Op::LookupA => "lookup_a",
            Op::LookupB => "lookup_b",
            Op::LookupOrNewA => "lookup_or_new_a",
            Op::BindGGate => "bind_g_gate",
            Op::BindHw => "bind_hw",
            Op::BindPiInt => "bind_pi_int",
            Op::BindTauQubit => "bind_tau_qubit",
        }
    }
    pub fn from_name(s: &str) -> Option<Op> {
        ALPHA2.iter().copied().find(|o| o.name() == s)
    }
}

pub const ALPHA1: &[Op] = &[
    Op::EnterLocal,
    Op::EnterSub,
    Op::Exit,
    Op::BindAInt,
    Op::BindBInt,
    Op::BindAQubit,
    Op::BindBQubit,
    Op::LookupA,
    Op::LookupB,
];
pub const ALPHA2: &[Op] = &[
    Op::EnterLocal,
    Op::EnterSub,
    Op::Exit,
    Op::BindAInt,
    Op::BindBInt,
    Op::BindAQubit,
    Op::BindBQubit,
    Op::LookupA,
    Op::LookupB,
    Op::LookupOrNewA,
    Op::BindGGate,
    Op::BindHw,
    Op::BindPiInt,
    Op::BindTauQubit,
];

fn t_int() -> Type {
    Type::Int(Some(32), IsConst::False)
}
fn t_qubit() -> Type {
    Type::Qubit
}

/// Reference model: a stack of ordered maps and an append-only list of symbols.
#[derive(Clone)]
pub struct RefTable {
    scopes: Vec<BTreeMap<String, usize>>,
    all: Vec<(String, Type)>,
}

impl RefTable {
    fn new() -> RefTable {
        let mut r = RefTable {
            scopes: vec![BTreeMap::new()],
            all: Vec::new(),
        };
        for c in ["pi", "π", "euler", "ℇ", "tau", "τ"] {
            let _ = r.bind(c, &Type::Float(Some(64), IsConst::True));
        }
        let _ = r.bind("U", &Type::Gate(3, 1));
        r
    }
    fn bind(&mut self, name: &str, ty: &Type) -> Result<usize, ()> {
        if self.scopes.last().unwrap().contains_key(name) {
            return Err(());
        }
        Ok(self.bind_no_check(name, ty))
    }
    fn bind_no_check(&mut self, name: &str, ty: &Type) -> usize {
        let id = self.all.len();
        self.all.push((name.to_string(), ty.clone()));
        self.scopes.last_mut().unwrap().insert(name.to_string(), id);
        id
    }
    fn lookup(&self, name: &str) -> Option<usize> {
        for s in self.scopes.iter().rev() {
            if let Some(id) = s.get(name) {
                return Some(*id);
            }
        }
        None
    }
    fn hash(&self) -> u64 {
        let mut h = fnv_mix(0x19, self.all.len() as u64);
        for s in &self.scopes {
            h = fnv_mix(h, 0xffff);
            for (k, v) in s {
                h = fnv_mix(h, fnv_str(k));
                h = fnv_mix(h, *v as u64);
            }
        }
        h
    }
}

pub fn id_num(id: &SymbolId) -> usize {
    let s = format!("{:?}", id);
    s.trim_start_matches("SymbolId(")
        .trim_end_matches(')')
        .parse()
        .unwrap_or(usize::MAX)
}

/// The implementation under test together with the reference and the ids issued so far.
#[derive(Clone)]
struct Pair {
    imp: SymbolTable,
    reference: RefTable,
    ids: Vec<SymbolId>,
    binds_ok: u32,
    exits_ok: u32,
}

const NAMES: &[&str] = &["a", "b", "g", "$0", "pi", "τ", "U", "zz"];

impl Pair {
    fn new() -> Pair {
        let mut p = Pair {
            imp: SymbolTable::new(),
            reference: RefTable::new(),
            ids: Vec::new(),
            binds_ok: 0,
            exits_ok: 0,
        };
        p.sync_ids();
        p
    }

    fn sync_ids(&mut self) {
        // SymbolId has no public constructor from a number, but post_increment is public.
        while self.ids.len() < self.reference.all.len() {
            let mut c = SymbolId::new();
            for _ in 0..self.ids.len() {
                c.post_increment();
            }
            self.ids.push(c);
        }
    }

    fn bind(&mut self, name: &str, ty: &Type) -> Result<(), String> {
        let got = catch(|| self.imp.new_binding(name, ty)).map_err(|p| format!("new_binding panicked: {}", p.message))?;
        let exp = self.reference.bind(name, ty);
        match (&got, &exp) {
            (Ok(id), Ok(n)) => {
                if id_num(id) != *n {
                    return Err(format!("bind {}: implementation issued id {} but the {}th symbol was expected", name, id_num(id), n));
                }
                self.binds_ok += 1;
            }
            (Err(SymbolError::AlreadyBound), Err(())) => {}
            _ => {
                return Err(format!(
                    "bind {}: implementation answered {:?}, the reference {}",
                    name,
                    got,
                    if exp.is_ok() { "a new binding" } else { "already bound in the current scope" }
                ))
            }
        }
        self.sync_ids();
        Ok(())
    }

    fn apply(&mut self, op: Op) -> Result<(), String> {
        match op {
            Op::EnterLocal | Op::EnterSub => {
                let st = if op == Op::EnterLocal { ScopeType::Local } else { ScopeType::Subroutine };
                catch(|| self.imp.verif_enter_scope(st)).map_err(|p| format!("enter_scope panicked: {}", p.message))?;
                self.reference.scopes.push(BTreeMap::new());
            }
            Op::Exit => {
                let r = catch(|| self.imp.exit_scope());
                if self.reference.scopes.len() > 1 {
                    r.map_err(|p| format!("exit_scope panicked with {} scopes open: {}", self.reference.scopes.len(), p.message))?;
                    self.reference.scopes.pop();
                    self.exits_ok += 1;
                } else {
                    // Exiting the global scope is a programming error which the implementation
                    // refuses; whether it does so by panicking or by ignoring the call, the
                    // table must be unchanged (compared below).
                    let _ = r;
                }
            }
            Op::BindAInt => self.bind("a", &t_int())?,
            Op::BindBInt => self.bind("b", &t_int())?,
            Op::BindAQubit => self.bind("a", &t_qubit())?,
            Op::BindBQubit => self.bind("b", &t_qubit())?,
            Op::BindGGate => self.bind("g", &Type::Gate(2, 1))?,
            Op::BindHw => self.bind("$0", &Type::HardwareQubit)?,
            Op::BindPiInt => self.bind("pi", &t_int())?,
            Op::BindTauQubit => self.bind("τ", &t_qubit())?,
            Op::LookupA | Op::LookupB => {
                // a look-up on the table itself (the observation below works on a copy, so this
                // is the only look-up that can leave a trace in the table)
                let name = if op == Op::LookupA { "a" } else { "b" };
                let got = catch(|| self.imp.lookup(name).map(|rec| id_num(&rec.symbol_id()))).map_err(|p| format!("lookup {} panicked: {}", name, p.message))?;
                match (got, self.reference.lookup(name)) {
                    (Ok(id), Some(e)) if id == e => {}
                    (Err(SymbolError::MissingBinding), None) => {}
                    (g, e) => return Err(format!("lookup {}: implementation {:?}, reference {:?}", name, g, e)),
                }
            }
            Op::LookupOrNewA => {
                let got = catch(|| self.imp.lookup_or_new_binding("a", &t_int()))
                    .map_err(|p| format!("lookup_or_new_binding panicked: {}", p.message))?;
                let exp = match self.reference.lookup("a") {
                    Some(id) => id,
                    None => self.reference.bind_no_check("a", &t_int()),
                };
                if id_num(&got) != exp {
                    return Err(format!("lookup_or_new_binding a: implementation returned id {}, expected {}", id_num(&got), exp));
                }
                self.sync_ids();
            }
        }
        // the observation runs on a copy: whatever a look-up may leave behind in the table
        // (a cache, say) must not hide behind the observations themselves
        self.clone().observe()
    }

    /// Compare the full observation vector.
    fn observe(&self) -> Result<(), String> {
        let r = &self.reference;
        let depth = catch(|| self.imp.verif_scope_depth()).map_err(|p| p.message)?;
        if depth != r.scopes.len() {
            return Err(format!("scope depth is {} but {} scopes are open", depth, r.scopes.len()));
        }
        let len = catch(|| self.imp.len_current_scope()).map_err(|p| format!("len_current_scope panicked: {}", p.message))?;
        if len != r.scopes.last().unwrap().len() {
            return Err(format!("current scope has {} bindings, expected {}", len, r.scopes.last().unwrap().len()));
        }
        for name in NAMES {
            let got = catch(|| {
                self.imp.lookup(name).map(|rec| (id_num(&rec.symbol_id()), rec.symbol_type().clone()))
            })
            .map_err(|p| format!("lookup {} panicked: {}", name, p.message))?;
            let exp = r.lookup(name);
            match (got, exp) {
                (Ok((id, ty)), Some(e)) => {
                    if id != e {
                        return Err(format!("lookup {} resolves to symbol {} but the innermost binding is symbol {}", name, id, e));
                    }
                    if ty != r.all[e].1 {
                        return Err(format!("lookup {} has type {:?}, bound with {:?}", name, ty, r.all[e].1));
                    }
                }
                (Err(SymbolError::MissingBinding), None) => {}
                (g, e) => return Err(format!("lookup {}: implementation {:?}, reference {:?}", name, g.map(|x| x.0), e)),
            }
        }
        // every id ever issued keeps denoting the same name and type
        let n = r.all.len();
        let check = |i: usize| -> Result<(), String> {
            let (name, ty) = catch(|| {
                let s = &self.imp[&self.ids[i]];
                (s.name().to_string(), s.symbol_type().clone())
            })
            .map_err(|p| format!("indexing symbol {} panicked: {}", i, p.message))?;
            if name != r.all[i].0 || ty != r.all[i].1 {
                return Err(format!("symbol {} now denotes {}: {:?}, was issued for {}: {:?}", i, name, ty, r.all[i].0, r.all[i].1));
            }
            Ok(())
        };
        if n <= 40 {
            for i in 0..n {
                check(i)?;
            }
        } else {
            for i in (0..8).chain(n - 16..n) {
                check(i)?;
            }
        }
        // one past the end must not exist (ids are never issued ahead)
        // gate listing and hardware qubits
        let gates: Vec<(String, usize, usize, usize)> = catch(|| {
            self.imp.gates().map(|(name, id, p, q)| (name.to_string(), id_num(&id), p, q)).collect()
        })
        .map_err(|p| format!("gates() panicked: {}", p.message))?;
        let exp_gates: Vec<(String, usize, usize, usize)> = r
            .all
            .iter()
            .enumerate()
            .filter_map(|(i, (name, ty))| match ty {
                Type::Gate(p, q) if name != "U" => Some((name.clone(), i, *p, *q)),
                _ => None,
            })
            .collect();
        if gates != exp_gates {
            return Err(format!("gates() lists {:?}, expected {:?}", gates, exp_gates));
        }
        let hw: Vec<(String, usize)> = catch(|| {
            self.imp.hardware_qubits().into_iter().map(|(n, id)| (n.to_string(), id_num(&id))).collect()
        })
        .map_err(|p| format!("hardware_qubits() panicked: {}", p.message))?;
        let exp_hw: Vec<(String, usize)> = r
            .all
            .iter()
            .enumerate()
            .filter_map(|(i, (name, ty))| if *ty == Type::HardwareQubit { Some((name.clone(), i)) } else { None })
            .collect();
        if hw != exp_hw {
            return Err(format!("hardware_qubits() lists {:?}, expected {:?}", hw, exp_hw));
        }
        Ok(())
    }
}

/// Systematic non-initial states, each built by a fixed prefix history (also checked in lock-step).
pub const NUM_STARTS: usize = 17;

fn start_state(k: usize) -> Result<Pair, String> {
    let mut p = Pair::new();
    p.observe()?;
    let names200: Vec<String> = (0..200).map(|i| format!("x{}", i)).collect();
    match k {
        0 => {}
        1 => p.apply(Op::EnterLocal)?,
        2 => {
            p.apply(Op::EnterSub)?;
            p.apply(Op::EnterLocal)?;
        }
        3 => {
            for _ in 0..49 {
                p.apply(Op::EnterLocal)?;
            }
        }
        4 => p.apply(Op::BindAInt)?,
        5 => {
            for n in &names200 {
                p.bind(n, &Type::BitArray(ArrayDims::D1(4), IsConst::False))?;
            }
            p.observe()?;
        }
        6 => {
            p.apply(Op::BindAInt)?;
            p.apply(Op::EnterLocal)?;
        }
        7 => {
            p.apply(Op::EnterLocal)?;
            p.apply(Op::BindAInt)?;
        }
        8 => {
            p.apply(Op::BindAQubit)?;
            p.apply(Op::EnterLocal)?;
            p.apply(Op::BindAInt)?;
        }
        9 => {
            p.apply(Op::EnterLocal)?;
            p.apply(Op::BindAInt)?;
            p.apply(Op::BindBInt)?;
            p.apply(Op::Exit)?;
        }
        10 => {
            p.apply(Op::BindBQubit)?;
            p.apply(Op::EnterSub)?;
            p.apply(Op::BindAInt)?;
            p.apply(Op::EnterLocal)?;
        }
        11 => {
            for i in 0..49 {
                if i % 10 == 0 {
                    p.apply(Op::BindAInt)?;
                }
                p.apply(Op::EnterLocal)?;
            }
        }
        // large non-global scopes (a table that is reused must come back empty)
        12 => {
            p.apply(Op::EnterLocal)?;
            p.apply(Op::BindAInt)?;
            p.apply(Op::BindBInt)?;
            for n in names200.iter().take(40) {
                p.bind(n, &Type::Int(Some(8), IsConst::False))?;
            }
            p.observe()?;
        }
        13 => {
            p.apply(Op::EnterSub)?;
            p.apply(Op::BindAInt)?;
            for n in names200.iter().take(16) {
                p.bind(n, &Type::Qubit)?;
            }
            p.observe()?;
            p.apply(Op::Exit)?;
        }
        14 => {
            p.apply(Op::BindAQubit)?;
            p.apply(Op::EnterLocal)?;
            p.apply(Op::EnterSub)?;
            p.apply(Op::BindAInt)?;
            p.apply(Op::BindBInt)?;
            for n in names200.iter().take(100) {
                p.bind(n, &Type::Float(Some(64), IsConst::False))?;
            }
            p.observe()?;
            p.apply(Op::Exit)?;
            p.apply(Op::Exit)?;
        }
        // the other constructor: a table built through `Default` is a table like any other
        // (built-ins present from the start, ids counted from the same number)
        15 => {
            p.imp = SymbolTable::default();
            p.sync_ids();
            p.observe()?;
        }
        16 => {
            p.imp = SymbolTable::default();
            p.sync_ids();
            p.observe()?;
            p.apply(Op::EnterLocal)?;
            p.apply(Op::BindAInt)?;
        }
        _ => return Err("no such start state".into()),
    }
    p.binds_ok = 0;
    p.exits_ok = 0;
    Ok(p)
}

pub struct Histories {
    pub alpha: &'static [Op],
    pub alpha_name: &'static str,
    pub max_len: usize,
    pub start: usize,
}

impl Histories {
    fn witness(&self, hist: &[Op]) -> String {
        let ops: Vec<&str> = hist.iter().map(|o| o.name()).collect();
        format!("S{}: {}", self.start, ops.join(" "))
    }
    fn case(&self, hist: &[Op]) -> Value {
        let ops: Vec<&str> = hist.iter().map(|o| o.name()).collect();
        json!({"start": self.start, "ops": ops, "witness": self.witness(hist)})
    }

    fn fail(&self, ctx: &mut Ctx, hist: &[Op], msg: String) {
        ctx.fail(Failure {
            rule: "stack_of_maps".into(),
            witness: self.witness(hist),
            locus: hist.last().map(|o| o.name()).unwrap_or("initial").to_string(),
            detail: msg,
            case: self.case(hist),
        });
    }

    /// Visit the node reached by `hist` (already applied to `pair`) and recurse.
    fn dfs(&self, pair: &Pair, hist: &mut Vec<Op>, ctx: &mut Ctx) {
        if hist.len() >= self.max_len {
            return;
        }
        let state_h = pair.reference.hash();
        for (oi, op) in self.alpha.iter().enumerate() {
            hist.push(*op);
            let go = ctx.begin(|| self.case(hist));
            let mut next = pair.clone();
            let res = next.apply(*op);
            if go {
                ctx.count("traces", 1);
                ctx.distinct("transitions", fnv_mix(state_h, oi as u64));
                match &res {
                    Ok(()) => {
                        let h = next.reference.hash();
                        ctx.distinct("states", h);
                        ctx.outcome(h);
                        if next.binds_ok > 0 && next.exits_ok > 0 {
                            ctx.mark_nontrivial(fnv_str(&self.witness(hist)));
                        }
                    }
                    Err(m) => self.fail(ctx, hist, m.clone()),
                }
            }
            if res.is_ok() {
                self.dfs(&next, hist, ctx);
            }
            hist.pop();
        }
    }

    fn run_history(&self, ops: &[Op], ctx: &mut Ctx) {
        let mut pair = match start_state(self.start) {
            Ok(p) => p,
            Err(m) => {
                self.fail(ctx, &[], format!("building start state {}: {}", self.start, m));
                return;
            }
        };
        let mut hist = Vec::new();
        for op in ops {
            hist.push(*op);
            if let Err(m) = pair.apply(*op) {
                self.fail(ctx, &hist, m);
                return;
            }
        }
    }
}

impl Space for Histories {
    fn name(&self) -> String {
        format!("H-SYM/{}/S{}/len<={}", self.alpha_name, self.start, self.max_len)
    }
    fn describe(&self) -> Value {
        let n = self.alpha.len() as u64;
        let card: u64 = (0..=self.max_len as u32).map(|l| n.pow(l)).sum();
        json!({"space": "H-SYM", "alphabet": self.alpha.iter().map(|o| o.name()).collect::<Vec<_>>(),
               "start_state": self.start, "max_len": self.max_len, "histories": card})
    }
    fn num_blocks(&self) -> u64 {
        let n = self.alpha.len() as u64;
        if self.max_len >= 4 {
            1 + n * n
        } else {
            1
        }
    }
    fn run_block(&self, block: u64, ctx: &mut Ctx) {
        let pair = match start_state(self.start) {
            Ok(p) => p,
            Err(m) => {
                self.fail(ctx, &[], format!("building start state {}: {}", self.start, m));
                return;
            }
        };
        let n = self.alpha.len() as u64;
        let split = self.max_len >= 4;
        if block == 0 {
            // the empty history, and (when split) the histories of length 1 and 2
            if ctx.begin(|| self.case(&[])) {
                ctx.count("traces", 1);
                let h = pair.reference.hash();
                ctx.distinct("states", h);
                ctx.outcome(h);
            }
            let shallow = Histories {
                alpha: self.alpha,
                alpha_name: self.alpha_name,
                max_len: if split { 2 } else { self.max_len },
                start: self.start,
            };
            shallow.dfs(&pair, &mut Vec::new(), ctx);
            return;
        }
        let o1 = self.alpha[((block - 1) / n) as usize];
        let o2 = self.alpha[((block - 1) % n) as usize];
        let mut p = pair;
        let mut hist = vec![o1];
        if p.apply(o1).is_err() {
            return; // reported by block 0
        }
        hist.push(o2);
        if p.apply(o2).is_err() {
            return; // reported by block 0
        }
        self.dfs(&p, &mut hist, ctx);
    }
    fn replay(&self, case: &Value, ctx: &mut Ctx) {
        let ops: Vec<Op> = case["ops"]
            .as_array()
            .map(|a| a.iter().filter_map(|v| v.as_str().and_then(Op::from_name)).collect())
            .unwrap_or_default();
        ctx.begin(|| case.clone());
        self.run_history(&ops, ctx);
    }
}

pub fn spaces(tier: Tier, _seed: u64) -> Vec<Box<dyn Space>> {
    let mut v: Vec<Box<dyn Space>> = Vec::new();
    let (l0, lk, l2) = match tier {
        Tier::Quick => (7, 4, 5),
        Tier::Thorough => (9, 5, 7),
    };
    v.push(Box::new(Histories { alpha: ALPHA1, alpha_name: "A1", max_len: l0, start: 0 }));
    for k in 1..NUM_STARTS {
        v.push(Box::new(Histories { alpha: ALPHA1, alpha_name: "A1", max_len: lk, start: k }));
    }
    v.push(Box::new(Histories { alpha: ALPHA2, alpha_name: "A2", max_len: l2, start: 0 }));
    v.push(Box::new(Histories { alpha: ALPHA2, alpha_name: "A2", max_len: lk.min(4), start: 10 }));
    v
}
