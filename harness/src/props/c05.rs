//! C05 — the AST mirrors the program's derivation: precedence, associativity, roles.

use crate::core::*;
use crate::model::prog::*;
use crate::model::{ast_extract, ProgCase};
use crate::props::{gprog, Meta};
use crate::subject;
use serde_json::json;

pub fn meta() -> Meta {
    Meta {
        level: "exploration",
        rule: "the program spaces of C04 (spines over 17 contexts x ~65 leaves, statement sequences, all two- and three-operator trees over 19 binary operators in both/all groupings, unary x binary x postfix interactions, 12 expression positions), each printed with exactly the parentheses the OpenQASM 3 table requires, with full and with redundant parentheses, spaced and tight; the S-expression read from the tree through the public typed accessors must equal the one computed from the model; non-trivial = accepted programs; outcomes = distinct S-expressions",
        assumptions: vec![
            "programs the parser rejects are C04's business and are skipped here (counted)",
            "R-prec (precedence table as data) is self-tested: printing with minimal parentheses and re-grouping by the table is the identity on all two-operator trees",
        ],
    }
}

fn first_diff(a: &str, b: &str) -> usize {
    a.bytes().zip(b.bytes()).position(|(x, y)| x != y).unwrap_or(a.len().min(b.len()))
}

pub fn oracle(case: &ProgCase, index: u64, ctx: &mut Ctx) {
    let expected = stmts_sexp(&case.stmts);
    let mut accepted = false;
    for parens in [Parens::Minimal, Parens::Full, Parens::Redundant] {
        let toks = print_program(&case.stmts, parens);
        // comments in every gap (with the minimal parentheses only): an accessor that takes
        // "the first token" must not take a comment
        let seps: &[&'static str] = if parens == Parens::Minimal { &[" ", "", "/*c*/", "//c\n"] } else { &[" ", ""] };
        for sep in seps.iter().copied() {
            let text = layout_uniform(&toks, sep);
            let p = match subject::parse(&text) {
                Ok(p) => p,
                Err(_) => {
                    ctx.count("skipped_not_returning", 1);
                    continue;
                }
            };
            if !p.errors().is_empty() {
                ctx.count("skipped_rejected", 1);
                continue;
            }
            accepted = true;
            let got = match catch(|| ast_extract::program(&p.tree())) {
                Ok(Ok(s)) => s,
                Ok(Err(m)) => format!("<accessor failure: {}>", m),
                Err(pi) => format!("<accessor panicked: {}>", pi.message),
            };
            ctx.outcome(fnv_str(&got));
            if let Ok(alts) = catch(|| ast_extract::alternative_accessor_findings(&p.syntax_node())) {
                for (acc, got_v, want_v) in alts {
                    ctx.fail(Failure {
                        rule: "accessor_role".into(),
                        witness: text.clone(),
                        locus: acc.clone(),
                        detail: format!("{} returns `{}`, the constituent in that role is `{}`", acc, got_v, want_v),
                        case: json!({"index": index, "text": text}),
                    });
                }
            }
            if got != expected {
                let d = first_diff(&got, &expected);
                let lo = d.saturating_sub(30);
                let ctx_exp: String = expected.chars().skip(lo).take(70).collect();
                let ctx_got: String = got.chars().skip(lo).take(70).collect();
                ctx.fail(Failure {
                    rule: "ast_shape".into(),
                    witness: text.clone(),
                    locus: case.tag.clone(),
                    detail: format!("expected ...{}... but the accessors give ...{}... ({:?})", ctx_exp, ctx_got, parens),
                    case: json!({"index": index, "text": text}),
                });
            }
        }
    }
    if accepted {
        ctx.mark_nontrivial(fnv_mix(fnv_str(&case.tag), index));
    }
}

pub fn spaces(tier: Tier, _seed: u64) -> Vec<Box<dyn Space>> {
    gprog::syntax_spaces(tier, oracle)
}

/// R-prec self-test: regroup the flat token list `a op1 b op2 c` by the table and compare with
/// the tree the printer was given (minimal parentheses are exactly those the table requires).
pub fn self_check() -> Result<(), String> {
    use crate::model::gen::{two_op, N_TWO_OP};
    for i in 0..N_TWO_OP {
        let e = two_op(i);
        let toks: Vec<String> = print_expr(&e, Parens::Minimal).into_iter().map(|t| t.text).collect();
        // parse the token list with a tiny precedence-climbing parser driven by the same table
        let parsed = reparse(&toks)?;
        if parsed != e.sexp() {
            return Err(format!("R-prec self-test: `{}` regroups to {} but was printed from {}", toks.join(" "), parsed, e.sexp()));
        }
    }
    Ok(())
}

fn reparse(toks: &[String]) -> Result<String, String> {
    fn op_of(t: &str) -> Option<BinOp> {
        BINOPS.iter().copied().find(|o| o.text() == t)
    }
    fn primary(toks: &[String], pos: &mut usize) -> Result<String, String> {
        let t = toks.get(*pos).ok_or("unexpected end")?.clone();
        *pos += 1;
        if t == "(" {
            let e = expr(toks, pos, 0)?;
            if toks.get(*pos).map(|s| s.as_str()) != Some(")") {
                return Err("missing )".into());
            }
            *pos += 1;
            Ok(e)
        } else {
            Ok(format!("(id {})", t))
        }
    }
    fn expr(toks: &[String], pos: &mut usize, min: u8) -> Result<String, String> {
        let mut lhs = primary(toks, pos)?;
        loop {
            let op = match toks.get(*pos).and_then(|t| op_of(t)) {
                Some(o) if o.prec() >= min => o,
                _ => break,
            };
            *pos += 1;
            let next = if op.right_assoc() { op.prec() } else { op.prec() + 1 };
            let rhs = expr(toks, pos, next)?;
            lhs = format!("(bin {} {} {})", op.text(), lhs, rhs);
        }
        Ok(lhs)
    }
    let mut pos = 0;
    let e = expr(toks, &mut pos, 0)?;
    if pos != toks.len() {
        return Err("trailing tokens".into());
    }
    Ok(e)
}
