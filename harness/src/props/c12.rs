//! C12 — diagnostics carry valid spans; a diagnostic-free tree has no error nodes.

use crate::core::*;
use crate::props::{c01, Meta};
use crate::subject;
use oq3_semantics::semantic_error::SemanticErrorList;
use oq3_semantics::syntax_to_semantics::parse_source_string;
use oq3_source_file::{SourceFile, SourceTrait};
use oq3_syntax::SyntaxError;
use std::collections::HashSet;

pub fn meta() -> Meta {
    Meta {
        level: "exploration",
        rule: "syntax part: the text-level spaces of C01 (E-CHAR, E-TOK with non-ASCII lexemes) through both entry points; semantic part: every generated program with injected semantic errors and non-ASCII identifiers (scope histories and rule-violation programs); each input enumerated once; non-trivial = the input yields at least one diagnostic and at least one statement node; outcomes = distinct (diagnostic count, error-element) observations per tree shape",
        assumptions: vec![
            "inputs on which parsing does not return are C01's business and are skipped here",
        ],
    }
}

pub fn check_ranges(errors: &[SyntaxError], text: &str, what: &str) -> Result<(), String> {
    for e in errors {
        let r = e.range();
        let (s, t) = (usize::from(r.start()), usize::from(r.end()));
        if s > t || t > text.len() {
            return Err(format!("{}: diagnostic `{}` has range {}..{} outside the text of {} bytes", what, e.message(), s, t, text.len()));
        }
        if !text.is_char_boundary(s) || !text.is_char_boundary(t) {
            return Err(format!("{}: diagnostic `{}` has range {}..{} not on character boundaries", what, e.message(), s, t));
        }
    }
    Ok(())
}

pub fn oracle(text: &str, ctx: &mut Ctx) {
    match subject::parse(text) {
        Err(_) => ctx.count("skipped_not_returning", 1),
        Ok(parse) => {
            let root = parse.syntax_node();
            if let Err(m) = check_ranges(parse.errors(), text, "SourceFile::parse") {
                ctx.fail_text("span", text, "SourceFile::parse", m);
            }
            let has_err_el = subject::has_error_element(&root);
            if has_err_el && parse.errors().is_empty() {
                ctx.fail_text("error_node_has_diagnostic", text, "SourceFile::parse", "the tree contains an ERROR node or token but no diagnostic was reported".into());
            }
            ctx.outcome(fnv_mix(subject::tree_hash(&root), (parse.errors().len() as u64) << 1 | has_err_el as u64));
            if !parse.errors().is_empty() && subject::count_statements(&root) >= 1 {
                ctx.mark_nontrivial(fnv_str(text));
            }
        }
    }
    match subject::parse_check_lex(text) {
        Err(_) => ctx.count("skipped_not_returning_check_lex", 1),
        Ok(p) => {
            if let Err(m) = check_ranges(p.errors(), text, "SourceFile::parse_check_lex") {
                ctx.fail_text("span", text, "SourceFile::parse_check_lex", m);
            }
            if p.have_parse() {
                let root = p.syntax_node();
                if subject::has_error_element(&root) && p.errors().is_empty() {
                    ctx.fail_text("error_node_has_diagnostic", text, "SourceFile::parse_check_lex", "the tree contains an ERROR node or token but no diagnostic was reported".into());
                }
            }
        }
    }
}

/// Semantic part: every semantic diagnostic's range is the range of a node of the tree of the
/// file its list is tagged with, lies inside that text and on character boundaries.
fn check_list(list: &SemanticErrorList, text: &str, nodes: &HashSet<(usize, usize)>, included: &[SourceFile], issues: &mut Vec<String>, ndiag: &mut usize) {
    for e in list.iter() {
        *ndiag += 1;
        let r = e.range();
        let (s, t) = (usize::from(r.start()), usize::from(r.end()));
        if s > t || t > text.len() {
            issues.push(format!("{:?} has range {}..{} outside the text of {} bytes", e.kind(), s, t, text.len()));
        } else if !text.is_char_boundary(s) || !text.is_char_boundary(t) {
            issues.push(format!("{:?} has range {}..{} not on character boundaries", e.kind(), s, t));
        } else if !nodes.contains(&(s, t)) {
            issues.push(format!("{:?} has range {}..{} (`{}`) which is not the range of any node of the file's tree", e.kind(), s, t, show(&text[s..t])));
        }
    }
    // the lists of included files pair up with the included sources in order
    for (k, inc) in list.include_errors().iter().enumerate() {
        let mut checked = false;
        if let Some(sf) = included.get(k) {
            if let Some(ast) = sf.syntax_ast() {
                if ast.have_parse() {
                    let root = ast.syntax_node();
                    let t = root.text().to_string();
                    let ns: HashSet<(usize, usize)> = root.descendants().map(|n| (usize::from(n.text_range().start()), usize::from(n.text_range().end()))).collect();
                    check_list(inc, &t, &ns, sf.included(), issues, ndiag);
                    checked = true;
                }
            }
        }
        // a list tagged with a file that has no text (it could not be read) cannot hold a
        // diagnostic: its range would refer to nothing
        if !checked {
            for e in inc.iter() {
                *ndiag += 1;
                issues.push(format!("{:?} is filed under {:?}, a file without text or tree", e.kind(), inc.source_file_path()));
            }
        }
    }
}

pub fn semantic_oracle(text: &str, ctx: &mut Ctx) {
    let t2 = text.to_string();
    let r = catch(move || {
        let res = parse_source_string(t2.as_str(), None);
        if res.any_syntax_errors() {
            return None;
        }
        let src = res.syntax_result();
        let ast = src.syntax_ast()?;
        let root = ast.syntax_node();
        let nodes: HashSet<(usize, usize)> = root.descendants().map(|n| (usize::from(n.text_range().start()), usize::from(n.text_range().end()))).collect();
        let mut issues = Vec::new();
        let mut ndiag = 0usize;
        check_list(res.semantic_errors(), &t2, &nodes, src.included(), &mut issues, &mut ndiag);
        Some((issues, ndiag))
    });
    match r {
        Err(_) => ctx.count("skipped_analysis_panics", 1),
        Ok(None) => ctx.count("skipped_syntax_diagnostics", 1),
        Ok(Some((issues, ndiag))) => {
            ctx.outcome(fnv_mix(0x5e, ndiag.min(6) as u64));
            if ndiag >= 1 {
                ctx.mark_nontrivial(fnv_str(text));
            }
            for i in issues {
                let what = i.split(' ').next().unwrap_or("").to_string();
                ctx.fail_text("semantic_span", text, &what, i);
            }
        }
    }
}

fn scope_history_texts(family: usize, max_len: usize) -> Vec<String> {
    use crate::props::c07::{render, Op, N_QUICK_OPS, OPS};
    fn rec(hist: &mut Vec<Op>, family: usize, max_len: usize, out: &mut Vec<String>) {
        if hist.len() >= max_len {
            return;
        }
        for op in &OPS[..N_QUICK_OPS] {
            hist.push(*op);
            if let Some(r) = render(hist, family) {
                out.push(format!("// ψ 😀 non-ASCII prefix\n{}", r.text));
                rec(hist, family, max_len, out);
            }
            hist.pop();
        }
    }
    let mut out = Vec::new();
    rec(&mut Vec::new(), family, max_len, &mut out);
    out
}

pub fn spaces(tier: Tier, _seed: u64) -> Vec<Box<dyn Space>> {
    let mut v = c01::text_spaces(tier, oracle);
    // semantic diagnostics: rule-violation programs and scope histories, with non-ASCII
    // identifiers, strings and comments so that byte offsets differ from character offsets
    let pre = format!("/* ψ😀 */ int é变 = 1; bit[4] ça = \"0101\";\n{}", crate::props::c13::prelude());
    let mut texts: Vec<String> = Vec::new();
    for s in crate::props::c13::other_sites() {
        texts.push(format!("{}{}\né变 = nosuch_é;\n", pre, s.text));
    }
    for s in crate::props::c13::gate_sites().into_iter().filter(|s| !s.expect.is_empty()).step_by(if tier.is_thorough() { 1 } else { 23 }) {
        texts.push(format!("{}{}\n", pre, s.text));
    }
    for (_, t) in crate::props::c03::wider_texts() {
        texts.push(format!("{}{}\n", pre, t));
    }
    // the same statements laid out over several lines (a diagnostic's range is the range of a
    // node however many lines the node spans), with LF and with CR LF
    let mut multi: Vec<String> = Vec::new();
    for s in crate::props::c13::other_sites() {
        if !s.text.starts_with('@') && !s.text.contains("pragma") {
            multi.push(format!("{}{}\né变 = nosuch_é;\n", pre, s.text.replace(' ', "\n    ")));
            multi.push(format!("{}{}\r\n", pre, s.text.replace(' ', "\r\n\t")));
        }
    }
    for (_, t) in crate::props::c03::wider_texts() {
        if !t.starts_with('@') && !t.contains("pragma") && !t.contains('"') {
            multi.push(format!("{}{}\n", pre, t.replace(' ', "\n  ")));
        }
    }
    v.push(crate::space::TextSpace::list("SEMA/rule-violations+wider", texts, 64, semantic_oracle));
    v.push(crate::space::TextSpace::list("SEMA/rule-violations+wider/multi-line", multi, 64, semantic_oracle));
    v.push(crate::space::TextSpace::list("SEMA/scope-histories/unicode", scope_history_texts(3, if tier.is_thorough() { 4 } else { 3 }), 256, semantic_oracle));
    v.push(crate::space::TextSpace::list("SEMA/scope-histories/user", scope_history_texts(0, if tier.is_thorough() { 4 } else { 3 }), 256, semantic_oracle));
    v
}
