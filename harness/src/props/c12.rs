//! C12 — diagnostics carry valid spans; a diagnostic-free tree has no error nodes.

use crate::core::*;
use crate::props::{c01, Meta};
use crate::subject;
use oq3_semantics::semantic_error::SemanticErrorList;
use oq3_semantics::syntax_to_semantics::parse_source_string;
use oq3_source_file::{SourceFile, SourceTrait};
use oq3_syntax::SyntaxError;
use std::collections::HashSet;

pub fn meta() -> Meta {
    Meta {
        level: "exploration",
        rule: "syntax part: the text-level spaces of C01 (E-CHAR, E-TOK with non-ASCII lexemes) through both entry points; semantic part: every generated program with injected semantic errors and non-ASCII identifiers (scope histories and rule-violation programs); F-REWRITE: every history of 2 (thorough 3) analyses of one main program whose include files are rewritten or removed before each analysis (6 x 3 contents), each diagnostic judged against the text its file holds at that moment; each input enumerated once; non-trivial = the input yields at least one diagnostic and at least one statement node; outcomes = distinct (diagnostic count, error-element) observations per tree shape",
        assumptions: vec![
            "inputs on which parsing does not return are C01's business and are skipped here",
        ],
    }
}

pub fn check_ranges(errors: &[SyntaxError], text: &str, what: &str) -> Result<(), String> {
    for e in errors {
        let r = e.range();
        let (s, t) = (usize::from(r.start()), usize::from(r.end()));
        if s > t || t > text.len() {
            return Err(format!("{}: diagnostic `{}` has range {}..{} outside the text of {} bytes", what, e.message(), s, t, text.len()));
        }
        if !text.is_char_boundary(s) || !text.is_char_boundary(t) {
            return Err(format!("{}: diagnostic `{}` has range {}..{} not on character boundaries", what, e.message(), s, t));
        }
    }
    Ok(())
}

pub fn oracle(text: &str, ctx: &mut Ctx) {
    match subject::parse(text) {
        Err(_) => ctx.count("skipped_not_returning", 1),
        Ok(parse) => {
            let root = parse.syntax_node();
            if let Err(m) = check_ranges(parse.errors(), text, "SourceFile::parse") {
                ctx.fail_text("span", text, "SourceFile::parse", m);
            }
            let has_err_el = subject::has_error_element(&root);
            if has_err_el && parse.errors().is_empty() {
                ctx.fail_text("error_node_has_diagnostic", text, "SourceFile::parse", "the tree contains an ERROR node or token but no diagnostic was reported".into());
            }
            ctx.outcome(fnv_mix(subject::tree_hash(&root), (parse.errors().len() as u64) << 1 | has_err_el as u64));
            if !parse.errors().is_empty() && subject::count_statements(&root) >= 1 {
                ctx.mark_nontrivial(fnv_str(text));
            }
        }
    }
    match subject::parse_check_lex(text) {
        Err(_) => ctx.count("skipped_not_returning_check_lex", 1),
        Ok(p) => {
            if let Err(m) = check_ranges(p.errors(), text, "SourceFile::parse_check_lex") {
                ctx.fail_text("span", text, "SourceFile::parse_check_lex", m);
            }
            if p.have_parse() {
                let root = p.syntax_node();
                if subject::has_error_element(&root) && p.errors().is_empty() {
                    ctx.fail_text("error_node_has_diagnostic", text, "SourceFile::parse_check_lex", "the tree contains an ERROR node or token but no diagnostic was reported".into());
                }
            }
        }
    }
}

/// Semantic part: every semantic diagnostic's range is the range of a node of the tree of the
/// file its list is tagged with, lies inside that text and on character boundaries.
fn check_list(list: &SemanticErrorList, text: &str, nodes: &HashSet<(usize, usize)>, included: &[SourceFile], issues: &mut Vec<String>, ndiag: &mut usize) {
    for e in list.iter() {
        *ndiag += 1;
        let r = e.range();
        let (s, t) = (usize::from(r.start()), usize::from(r.end()));
        if s > t || t > text.len() {
            issues.push(format!("{:?} has range {}..{} outside the text of {} bytes", e.kind(), s, t, text.len()));
        } else if !text.is_char_boundary(s) || !text.is_char_boundary(t) {
            issues.push(format!("{:?} has range {}..{} not on character boundaries", e.kind(), s, t));
        } else if !nodes.contains(&(s, t)) {
            issues.push(format!("{:?} has range {}..{} (`{}`) which is not the range of any node of the file's tree", e.kind(), s, t, show(&text[s..t])));
        }
    }
    // the lists of included files pair up with the included sources in order
    for (k, inc) in list.include_errors().iter().enumerate() {
        let mut checked = false;
        if let Some(sf) = included.get(k) {
            if let Some(ast) = sf.syntax_ast() {
                if ast.have_parse() {
                    let root = ast.syntax_node();
                    let t = root.text().to_string();
                    let ns: HashSet<(usize, usize)> = root.descendants().map(|n| (usize::from(n.text_range().start()), usize::from(n.text_range().end()))).collect();
                    check_list(inc, &t, &ns, sf.included(), issues, ndiag);
                    checked = true;
                }
            }
        }
        // a list tagged with a file that has no text (it could not be read) cannot hold a
        // diagnostic: its range would refer to nothing
        if !checked {
            for e in inc.iter() {
                *ndiag += 1;
                issues.push(format!("{:?} is filed under {:?}, a file without text or tree", e.kind(), inc.source_file_path()));
            }
        }
    }
}

pub fn semantic_oracle(text: &str, ctx: &mut Ctx) {
    let t2 = text.to_string();
    let r = catch(move || {
        let res = parse_source_string(t2.as_str(), None);
        if res.any_syntax_errors() {
            return None;
        }
        let src = res.syntax_result();
        let ast = src.syntax_ast()?;
        let root = ast.syntax_node();
        let nodes: HashSet<(usize, usize)> = root.descendants().map(|n| (usize::from(n.text_range().start()), usize::from(n.text_range().end()))).collect();
        let mut issues = Vec::new();
        let mut ndiag = 0usize;
        check_list(res.semantic_errors(), &t2, &nodes, src.included(), &mut issues, &mut ndiag);
        Some((issues, ndiag))
    });
    match r {
        Err(_) => ctx.count("skipped_analysis_panics", 1),
        Ok(None) => ctx.count("skipped_syntax_diagnostics", 1),
        Ok(Some((issues, ndiag))) => {
            ctx.outcome(fnv_mix(0x5e, ndiag.min(6) as u64));
            if ndiag >= 1 {
                ctx.mark_nontrivial(fnv_str(text));
            }
            for i in issues {
                let what = i.split(' ').next().unwrap_or("").to_string();
                ctx.fail_text("semantic_span", text, &what, i);
            }
        }
    }
}

fn scope_history_texts(family: usize, max_len: usize) -> Vec<String> {
    use crate::props::c07::{render, Op, N_QUICK_OPS, OPS};
    fn rec(hist: &mut Vec<Op>, family: usize, max_len: usize, out: &mut Vec<String>) {
        if hist.len() >= max_len {
            return;
        }
        for op in &OPS[..N_QUICK_OPS] {
            hist.push(*op);
            if let Some(r) = render(hist, family) {
                out.push(format!("// ψ 😀 non-ASCII prefix\n{}", r.text));
                rec(hist, family, max_len, out);
            }
            hist.pop();
        }
    }
    let mut out = Vec::new();
    rec(&mut Vec::new(), family, max_len, &mut out);
    out
}

// ---------------------------------------------------------------------------------------------
// F-REWRITE: histories of analyses over include files that are rewritten in between.
//
// A diagnostic refers to the text its file has *now*.  Every history of `len` analyses of the
// same main program over the same paths, with the include files a.inc / b.inc rewritten (or
// removed) before each analysis, is run in one process; after each analysis every syntactic
// and semantic diagnostic of every file must have a valid range in, and (semantic) be the
// range of a node of the tree of, the text that the file holds at that moment.

const A_VARIANTS: [Option<&str>; 6] = [
    Some("int x_a = 1;\n"),
    Some("int é_a = nosuch_a;\n"),
    Some("/* ψ pad pad pad pad pad pad pad pad pad pad pad pad pad pad pad pad pad pad pad pad pad pad pad pad pad pad pad pad pad pad pad pad pad pad pad pad pad pad pad pad pad pad pad pad pad pad pad pad pad pad pad pad pad pad pad pad pad pad pad pad pad pad pad pad pad pad pad pad pad */\nint y_a = 2;\nint z_a = nosuch_far;\n"),
    Some("int w_a = ;\n"),
    Some("include \"b.inc\";\nint v_a = nosuch_v;\n"),
    None,
];
const B_VARIANTS: [&str; 3] = [
    "int x_b = 1;\n",
    "/* pad pad pad pad pad pad pad pad pad pad pad pad pad pad pad pad pad pad pad pad pad pad pad pad pad pad pad pad pad */ int q_b = nosuch_b;\n",
    "bit é_b = nosuch_b;\n",
];
const REWRITE_MAIN: &str = "int m0 = 1;\ninclude \"a.inc\";\nint é1 = nosuch_main;\n";

pub struct Rewrites {
    pub len: usize,
}

fn node_ranges(text: &str) -> HashSet<(usize, usize)> {
    match subject::parse(text) {
        Ok(p) => p.syntax_node().descendants().map(|n| (usize::from(n.text_range().start()), usize::from(n.text_range().end()))).collect(),
        Err(_) => HashSet::new(),
    }
}

type Current = std::collections::HashMap<String, String>;

/// Syntactic diagnostics and error elements of one file against the text it holds now.
fn rewrite_file<T: SourceTrait>(sf: &T, cur: &Current, out: &mut Vec<(String, String)>, ndiag: &mut usize) {
    let name = sf.file_path().file_name().map(|n| n.to_string_lossy().to_string()).unwrap_or_default();
    if let Some(ast) = sf.syntax_ast() {
        match cur.get(&name) {
            Some(text) => {
                *ndiag += ast.errors().len();
                if let Err(m) = check_ranges(ast.errors(), text, &name) {
                    out.push(("span".into(), m));
                }
                if ast.have_parse() && ast.errors().is_empty() && subject::has_error_element(&ast.syntax_node()) {
                    out.push(("error_node_has_diagnostic".into(), format!("{}: the tree contains an ERROR node or token but no diagnostic was reported", name)));
                }
            }
            None => {
                if !ast.errors().is_empty() {
                    out.push(("span".into(), format!("{}: {} syntactic diagnostics for a file that does not exist now", name, ast.errors().len())));
                }
            }
        }
    }
    for inc in sf.included() {
        rewrite_file(inc, cur, out, ndiag);
    }
}

/// Semantic diagnostics, list by list, against the text the tagged file holds now.
fn rewrite_lists(l: &SemanticErrorList, cur: &Current, out: &mut Vec<(String, String)>, ndiag: &mut usize) {
    let name = l.source_file_path().file_name().map(|n| n.to_string_lossy().to_string()).unwrap_or_default();
    match cur.get(&name) {
        Some(text) => {
            let nodes = node_ranges(text);
            for e in l.iter() {
                *ndiag += 1;
                let r = e.range();
                let (s, t) = (usize::from(r.start()), usize::from(r.end()));
                if s > t || t > text.len() {
                    out.push(("semantic_span".into(), format!("{:?} in {} has range {}..{} outside the file's text of {} bytes", e.kind(), name, s, t, text.len())));
                } else if !text.is_char_boundary(s) || !text.is_char_boundary(t) {
                    out.push(("semantic_span".into(), format!("{:?} in {} has range {}..{} not on character boundaries", e.kind(), name, s, t)));
                } else if !nodes.contains(&(s, t)) {
                    out.push(("semantic_span".into(), format!("{:?} in {} has range {}..{} (`{}`) which is not the range of any node of the tree of the file's text", e.kind(), name, s, t, show(&text[s..t]))));
                }
            }
        }
        None => {
            for e in l.iter() {
                *ndiag += 1;
                out.push(("semantic_span".into(), format!("{:?} is filed under {}, which has no text now", e.kind(), name)));
            }
        }
    }
    for inc in l.include_errors() {
        rewrite_lists(inc, cur, out, ndiag);
    }
}

/// The paths of all source files of the analysis.
fn source_paths<T: SourceTrait>(sf: &T, out: &mut Vec<std::path::PathBuf>) {
    out.push(sf.file_path().to_path_buf());
    for inc in sf.included() {
        source_paths(inc, out);
    }
}

/// Every list of semantic diagnostics is filed under one of the source files of the analysis
/// (the text a diagnostic's range refers to is the text of the file its list is tagged with).
fn list_tags(l: &SemanticErrorList, paths: &[std::path::PathBuf], out: &mut Vec<(String, String)>) {
    if !l.is_empty() && !paths.iter().any(|p| p == l.source_file_path()) {
        out.push(("semantic_span".into(), format!("{} diagnostic(s) are filed under {:?}, which is not the path of any source file of this analysis {:?}", l.iter().count(), l.source_file_path(), paths)));
    }
    for inc in l.include_errors() {
        list_tags(inc, paths, out);
    }
}

fn rewrite_inspect<T: SourceTrait>(sf: &T, errs: &SemanticErrorList, cur: &Current) -> (Vec<(String, String)>, usize) {
    let mut out = Vec::new();
    let mut ndiag = 0usize;
    rewrite_file(sf, cur, &mut out, &mut ndiag);
    rewrite_lists(errs, cur, &mut out, &mut ndiag);
    let mut paths = Vec::new();
    source_paths(sf, &mut paths);
    list_tags(errs, &paths, &mut out);
    (out, ndiag)
}

impl Rewrites {
    fn steps(&self) -> usize {
        A_VARIANTS.len() * B_VARIANTS.len()
    }
    fn root(tag: u64) -> std::path::PathBuf {
        std::path::PathBuf::from(format!("{}/.work/fs-{}/rewrite{}", crate::verif_root(), std::process::id(), tag))
    }
    /// Runs one history; `hist[i]` = a_variant * |B| + b_variant.
    fn run_history(&self, hist: &[usize], file_entry: bool, tag: u64, ctx: &mut Ctx) {
        use oq3_semantics::syntax_to_semantics::{parse_source_file_with_search, parse_source_string_with_path_search};
        let case = serde_json::json!({"history": hist, "file_entry": file_entry,
            "witness": format!("rewrites {:?} entry={}", hist.iter().map(|h| format!("a{}b{}", h / B_VARIANTS.len(), h % B_VARIANTS.len())).collect::<Vec<_>>(), if file_entry { "file" } else { "string" })});
        if !ctx.begin(|| case.clone()) {
            return;
        }
        let wit = case["witness"].as_str().unwrap_or("").to_string();
        let root = Self::root(tag);
        let _ = std::fs::remove_dir_all(&root);
        if std::fs::create_dir_all(&root).is_err() {
            ctx.count("fs_errors", 1);
            return;
        }
        let root_text = root.display().to_string();
        let main_path = root.join("main.qasm");
        let mut issues: Vec<(String, String)> = Vec::new();
        let mut ndiag_last = 0usize;
        for (step, h) in hist.iter().enumerate() {
            let (av, bv) = (h / B_VARIANTS.len(), h % B_VARIANTS.len());
            let mut current: Current = Current::new();
            match A_VARIANTS[av] {
                Some(t) => {
                    let _ = std::fs::write(root.join("a.inc"), t);
                    current.insert("a.inc".into(), t.to_string());
                }
                None => {
                    let _ = std::fs::remove_file(root.join("a.inc"));
                }
            }
            let _ = std::fs::write(root.join("b.inc"), B_VARIANTS[bv]);
            current.insert("b.inc".into(), B_VARIANTS[bv].to_string());
            let _ = std::fs::write(&main_path, REWRITE_MAIN);
            current.insert("main.qasm".into(), REWRITE_MAIN.to_string());
            let (mp, dirs) = (main_path.clone(), vec![root.clone()]);
            let cur = current.clone();
            let r = catch(move || {
                if file_entry {
                    let res = parse_source_file_with_search(&mp, Some(dirs.as_slice()));
                    rewrite_inspect(res.syntax_result(), res.semantic_errors(), &cur)
                } else {
                    let res = parse_source_string_with_path_search(REWRITE_MAIN, Some("main.qasm"), Some(dirs.as_slice()));
                    rewrite_inspect(res.syntax_result(), res.semantic_errors(), &cur)
                }
            });
            match r {
                Err(_) => {
                    ctx.count("skipped_analysis_panics", 1);
                    break;
                }
                Ok((out, nd)) => {
                    ndiag_last = nd;
                    for (rule, m) in out {
                        issues.push((rule, format!("after analysis {} of the history: {}", step + 1, m)));
                    }
                }
            }
        }
        let _ = std::fs::remove_dir_all(&root);
        let _ = std::fs::remove_dir(root.parent().unwrap_or(&root));
        ctx.outcome(fnv_mix(0x12e, fnv_mix(*hist.last().unwrap_or(&0) as u64, ndiag_last.min(9) as u64)));
        if hist.len() >= 2 && hist.windows(2).any(|w| w[0] != w[1]) && ndiag_last >= 1 {
            ctx.mark_nontrivial(fnv_str(&wit));
        }
        for (rule, m) in issues {
            let locus = m.split(": ").nth(1).unwrap_or("").split(' ').next().unwrap_or("").to_string();
            ctx.fail(Failure { rule, witness: wit.clone(), locus: format!("{} | rewritten include", locus), detail: m.replace(&root_text, "<tree>"), case: case.clone() });
        }
    }
}

impl Space for Rewrites {
    fn name(&self) -> String {
        format!("F-REWRITE/len={}", self.len)
    }
    fn describe(&self) -> serde_json::Value {
        serde_json::json!({"space": "F-REWRITE", "history_length": self.len, "a_variants": A_VARIANTS.len(), "b_variants": B_VARIANTS.len(),
            "entry_points": ["parse_source_string_with_path_search", "parse_source_file_with_search"],
            "histories": (self.steps() as u64).pow(self.len as u32) * 2})
    }
    fn num_blocks(&self) -> u64 {
        self.steps() as u64
    }
    fn run_block(&self, block: u64, ctx: &mut Ctx) {
        // block = first step of the history
        let n = self.steps();
        let total = n.pow(self.len as u32 - 1);
        for rest in 0..total {
            let mut hist = vec![block as usize];
            let mut x = rest;
            for _ in 1..self.len {
                hist.push(x % n);
                x /= n;
            }
            for file_entry in [false, true] {
                self.run_history(&hist, file_entry, block, ctx);
            }
        }
    }
    fn replay(&self, case: &serde_json::Value, ctx: &mut Ctx) {
        let hist: Vec<usize> = case["history"].as_array().map(|a| a.iter().filter_map(|v| v.as_u64().map(|x| x as usize)).collect()).unwrap_or_default();
        if hist.is_empty() || hist.iter().any(|h| *h >= self.steps()) {
            return;
        }
        self.run_history(&hist, case["file_entry"].as_bool().unwrap_or(false), 1_000_000, ctx);
    }
}

pub fn spaces(tier: Tier, _seed: u64) -> Vec<Box<dyn Space>> {
    let mut v = c01::text_spaces(tier, oracle);
    v.push(Box::new(Rewrites { len: if tier.is_thorough() { 3 } else { 2 } }));
    // semantic diagnostics: rule-violation programs and scope histories, with non-ASCII
    // identifiers, strings and comments so that byte offsets differ from character offsets
    let pre = format!("/* ψ😀 */ int é变 = 1; bit[4] ça = \"0101\";\n{}", crate::props::c13::prelude());
    let mut texts: Vec<String> = Vec::new();
    for s in crate::props::c13::other_sites() {
        texts.push(format!("{}{}\né变 = nosuch_é;\n", pre, s.text));
    }
    for s in crate::props::c13::gate_sites().into_iter().filter(|s| !s.expect.is_empty()).step_by(if tier.is_thorough() { 1 } else { 23 }) {
        texts.push(format!("{}{}\n", pre, s.text));
    }
    for (_, t) in crate::props::c03::wider_texts() {
        texts.push(format!("{}{}\n", pre, t));
    }
    // the same statements laid out over several lines (a diagnostic's range is the range of a
    // node however many lines the node spans), with LF and with CR LF
    let mut multi: Vec<String> = Vec::new();
    for s in crate::props::c13::other_sites() {
        if !s.text.starts_with('@') && !s.text.contains("pragma") {
            multi.push(format!("{}{}\né变 = nosuch_é;\n", pre, s.text.replace(' ', "\n    ")));
            multi.push(format!("{}{}\r\n", pre, s.text.replace(' ', "\r\n\t")));
        }
    }
    for (_, t) in crate::props::c03::wider_texts() {
        if !t.starts_with('@') && !t.contains("pragma") && !t.contains('"') {
            multi.push(format!("{}{}\n", pre, t.replace(' ', "\n  ")));
        }
    }
    v.push(crate::space::TextSpace::list("SEMA/rule-violations+wider", texts, 64, semantic_oracle));
    v.push(crate::space::TextSpace::list("SEMA/rule-violations+wider/multi-line", multi, 64, semantic_oracle));
    v.push(crate::space::TextSpace::list("SEMA/scope-histories/unicode", scope_history_texts(3, if tier.is_thorough() { 4 } else { 3 }), 256, semantic_oracle));
    v.push(crate::space::TextSpace::list("SEMA/scope-histories/user", scope_history_texts(0, if tier.is_thorough() { 4 } else { 3 }), 256, semantic_oracle));
    v
}
