//! C12 — diagnostics carry valid spans; a diagnostic-free tree has no error nodes.

use crate::core::*;
use crate::props::{c01, Meta};
use crate::subject;
use oq3_syntax::SyntaxError;

pub fn meta() -> Meta {
    Meta {
        level: "exploration",
        rule: "syntax part: the text-level spaces of C01 (E-CHAR, E-TOK with non-ASCII lexemes) through both entry points; semantic part: every generated program with injected semantic errors and non-ASCII identifiers (scope histories and rule-violation programs); each input enumerated once; non-trivial = the input yields at least one diagnostic and at least one statement node; outcomes = distinct (diagnostic count, error-element) observations per tree shape",
        assumptions: vec![
            "inputs on which parsing does not return are C01's business and are skipped here",
        ],
    }
}

pub fn check_ranges(errors: &[SyntaxError], text: &str, what: &str) -> Result<(), String> {
    for e in errors {
        let r = e.range();
        let (s, t) = (usize::from(r.start()), usize::from(r.end()));
        if s > t || t > text.len() {
            return Err(format!("{}: diagnostic `{}` has range {}..{} outside the text of {} bytes", what, e.message(), s, t, text.len()));
        }
        if !text.is_char_boundary(s) || !text.is_char_boundary(t) {
            return Err(format!("{}: diagnostic `{}` has range {}..{} not on character boundaries", what, e.message(), s, t));
        }
    }
    Ok(())
}

pub fn oracle(text: &str, ctx: &mut Ctx) {
    match subject::parse(text) {
        Err(_) => ctx.count("skipped_not_returning", 1),
        Ok(parse) => {
            let root = parse.syntax_node();
            if let Err(m) = check_ranges(parse.errors(), text, "SourceFile::parse") {
                ctx.fail_text("span", text, "SourceFile::parse", m);
            }
            let has_err_el = subject::has_error_element(&root);
            if has_err_el && parse.errors().is_empty() {
                ctx.fail_text("error_node_has_diagnostic", text, "SourceFile::parse", "the tree contains an ERROR node or token but no diagnostic was reported".into());
            }
            ctx.outcome(fnv_mix(subject::tree_hash(&root), (parse.errors().len() as u64) << 1 | has_err_el as u64));
            if !parse.errors().is_empty() && subject::count_statements(&root) >= 1 {
                ctx.mark_nontrivial(fnv_str(text));
            }
        }
    }
    match subject::parse_check_lex(text) {
        Err(_) => ctx.count("skipped_not_returning_check_lex", 1),
        Ok(p) => {
            if let Err(m) = check_ranges(p.errors(), text, "SourceFile::parse_check_lex") {
                ctx.fail_text("span", text, "SourceFile::parse_check_lex", m);
            }
            if p.have_parse() {
                let root = p.syntax_node();
                if subject::has_error_element(&root) && p.errors().is_empty() {
                    ctx.fail_text("error_node_has_diagnostic", text, "SourceFile::parse_check_lex", "the tree contains an ERROR node or token but no diagnostic was reported".into());
                }
            }
        }
    }
}

pub fn spaces(tier: Tier, _seed: u64) -> Vec<Box<dyn Space>> {
    c01::text_spaces(tier, oracle)
}
