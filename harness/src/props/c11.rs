//! C11 — malformed lexemes are always diagnosed and errors gate the later stages.

use crate::core::*;
use crate::props::{c01, Meta};
use crate::space::etok::Render;
use crate::subject;
use oq3_parser::{LexedStr, SyntaxKind};
use oq3_semantics::syntax_to_semantics::parse_source_string;
use oq3_syntax::AstNode;
use serde_json::{json, Value};

pub fn meta() -> Meta {
    Meta {
        level: "exploration",
        rule: "(a) every malformed lexeme of 35 spellings in 8 classes spliced at every position of every sequence of at most 2 tokens over the full token alphabet (unterminated forms only last); (b,c) every sequence of at most 3 tokens over the token alphabet with text-dependent and malformed variants, through parse_check_lex and the full pipeline; each case enumerated once; non-trivial = splice cases with at least one neighbouring token, pipeline cases with at least one statement node; outcomes = distinct (gating decision, diagnostic counts) observations",
        assumptions: vec![
            "pipeline cases on which semantic analysis panics are C03's business and are skipped here (counted)",
            "the bare word OPENQASM (no white space after it) is a keyword for the lexer, so only header forms with white space count as malformed version headers",
        ],
    }
}

/// (spelling, class, must be last)
pub fn malformed() -> Vec<(&'static str, &'static str, bool)> {
    vec![
        ("\"abc", "unterminated_string", true),
        ("'abc", "unterminated_string", true),
        ("\"a\\\"", "unterminated_string", true),
        ("\"01", "unterminated_bitstring", true),
        ("'01", "unterminated_bitstring", true),
        ("\"0_1", "unterminated_bitstring", true),
        ("\"0__1", "unterminated_bitstring", true),
        ("'1__", "unterminated_bitstring", true),
        ("\"", "unterminated_string", true),
        ("/* c", "unterminated_comment", true),
        ("/* /* c */", "unterminated_comment", true),
        ("/*", "unterminated_comment", true),
        ("0b", "empty_int", false),
        ("0o", "empty_int", false),
        ("0x", "empty_int", false),
        ("0b_", "empty_int", false),
        ("0x_", "empty_int", false),
        ("0o__", "empty_int", false),
        ("1e", "empty_exponent", false),
        ("1e+", "empty_exponent", false),
        ("1.5e", "empty_exponent", false),
        (".5e", "empty_exponent", false),
        ("1E-", "empty_exponent", false),
        ("1e_", "empty_exponent", false),
        ("OPENQASM x", "version_header", false),
        ("OPENQASM 3.", "version_header", false),
        ("OPENQASM 3.x", "version_header", false),
        ("OPENQASM 3x", "version_header", false),
        ("OPENQASM .5", "version_header", false),
        ("OPENQASM ;", "version_header", false),
        ("a😀", "bad_identifier", false),
        ("😀", "bad_identifier", false),
        ("😀a", "bad_identifier", false),
        ("x_😀_y", "bad_identifier", false),
        ("#x", "bad_identifier", false),
    ]
}

pub struct Splice {
    pub e: crate::space::etok::ETok,
}

impl Splice {
    fn check(&self, text: &str, lo: usize, hi: usize, class: &str, ctx: &mut Ctx) {
        let r = catch(|| {
            let lexed = LexedStr::new(text);
            let hits: Vec<(usize, usize, String)> = lexed
                .errors()
                .map(|(i, m)| {
                    let r = lexed.text_range(i);
                    (r.start, r.end, m.to_string())
                })
                .collect();
            hits
        });
        let case = json!({"text": text, "lo": lo, "hi": hi, "class": class});
        match r {
            Err(p) => ctx.fail(Failure { rule: "lex_diag".into(), witness: text.into(), locus: p.locus(), detail: p.message, case }),
            Ok(hits) => {
                let on_it = hits.iter().any(|(s, e, _)| *s < hi && *e > lo);
                if !on_it {
                    ctx.fail(Failure {
                        rule: "lex_diag".into(),
                        witness: text.into(),
                        locus: class.into(),
                        detail: format!("no lexical diagnostic on the malformed lexeme `{}` (bytes {}..{}); diagnostics: {:?}", show(&text[lo..hi]), lo, hi, hits),
                        case,
                    });
                }
                ctx.outcome(fnv_mix(fnv_str(class), hits.len() as u64));
            }
        }
    }
}

impl Space for Splice {
    fn name(&self) -> String {
        format!("SPLICE/{}", self.e.name)
    }
    fn describe(&self) -> Value {
        json!({"space": "SPLICE", "malformed": malformed().iter().map(|m| m.0).collect::<Vec<_>>(), "base": self.e.describe()["cardinality_upper_bound"], "positions": "every gap, including both ends"})
    }
    fn num_blocks(&self) -> u64 {
        self.e.num_blocks()
    }
    fn run_block(&self, block: u64, ctx: &mut Ctx) {
        let mal = malformed();
        let ls = &self.e.alpha.lexemes;
        self.e.block(block, &mut |_, idx| {
            for pos in 0..=idx.len() {
                for (m, class, last_only) in &mal {
                    if *last_only && pos != idx.len() {
                        continue;
                    }
                    // render: lexemes separated by one space, newline after line lexemes
                    let mut text = String::new();
                    let (mut lo, mut hi) = (0, 0);
                    for slot in 0..=idx.len() {
                        if slot == pos {
                            if !text.is_empty() && !text.ends_with('\n') {
                                text.push(' ');
                            }
                            lo = text.len();
                            text.push_str(m);
                            hi = text.len();
                        }
                        if slot < idx.len() {
                            if !text.is_empty() && !text.ends_with('\n') {
                                text.push(' ');
                            }
                            let l = &ls[idx[slot]];
                            text.push_str(&l.text);
                            // the bare word `pragma` followed by a blank would become a pragma
                            // line swallowing what follows
                            if l.line || l.text == "pragma" {
                                text.push('\n');
                            }
                        }
                    }
                    if ctx.begin(|| json!({"text": text, "lo": lo, "hi": hi, "class": class})) {
                        if !idx.is_empty() {
                            ctx.mark_nontrivial(fnv_str(&text));
                        }
                        self.check(&text, lo, hi, class, ctx);
                    }
                }
            }
        });
    }
    fn replay(&self, case: &Value, ctx: &mut Ctx) {
        let text = case["text"].as_str().unwrap_or("");
        let lo = case["lo"].as_u64().unwrap_or(0) as usize;
        let hi = case["hi"].as_u64().unwrap_or(0) as usize;
        ctx.begin(|| case.clone());
        if lo <= hi && hi <= text.len() {
            self.check(text, lo, hi, case["class"].as_str().unwrap_or(""), ctx);
        }
    }
}

const LEXER_MESSAGES: &[&str] = &[
    "Missing digits after the integer base prefix",
    "Missing digits after the exponent symbol",
    "Missing trailing `'` symbol to terminate the byte literal",
    "Missing trailing `\"` symbol to terminate the string literal",
    "Missing trailing `\"` symbol to terminate the bitstring literal",
    "Consecutive underscores not allowed in bitstring literal",
    "Missing trailing `*/` symbols to terminate the block comment",
    "Invalid minor version in OpenQASM version statement",
    "Invalid version number in OpenQASM version statement",
    "Identifier contains invalid characters",
];

/// (b) + (c): gating of the lex-checked parse and of the full pipeline.
pub fn gating_oracle(text: &str, ctx: &mut Ctx) {
    let lex_clean = match catch(|| LexedStr::new(text).errors_is_empty()) {
        Ok(b) => b,
        Err(_) => {
            ctx.count("skipped_not_returning", 1);
            return;
        }
    };
    let p = match subject::parse_check_lex(text) {
        Ok(p) => p,
        Err(_) => {
            ctx.count("skipped_not_returning", 1);
            return;
        }
    };
    if p.have_parse() != lex_clean {
        ctx.fail_text("gating", text, "parse_check_lex", format!("a tree is returned: {}, but the text has no lexical diagnostic: {}", p.have_parse(), lex_clean));
        return;
    }
    let lexical = |m: &str| LEXER_MESSAGES.contains(&m);
    if p.have_parse() {
        if let Some(e) = p.errors().iter().find(|e| lexical(e.message())) {
            ctx.fail_text("gating", text, "parse_check_lex", format!("a tree is returned together with the lexical diagnostic `{}`", e.message()));
        }
    } else {
        if p.errors().is_empty() {
            ctx.fail_text("gating", text, "parse_check_lex", "no tree and no diagnostic".into());
        }
        if let Some(e) = p.errors().iter().find(|e| !lexical(e.message())) {
            ctx.fail_text("gating", text, "parse_check_lex", format!("no tree, but the non-lexical diagnostic `{}` is reported", e.message()));
        }
    }
    // full pipeline
    let has_syntax_diag = !p.errors().is_empty();
    let stmts_other = if p.have_parse() {
        p.tree()
            .statements()
            .filter(|s| !matches!(s.syntax().kind(), SyntaxKind::INCLUDE | SyntaxKind::ANNOTATION_STATEMENT))
            .count()
    } else {
        0
    };
    let r = catch(|| {
        let res = parse_source_string(text, None);
        (
            res.any_syntax_errors(),
            res.program().stmts().len(),
            res.any_semantic_errors(),
            res.semantic_errors().len(),
        )
    });
    match r {
        Err(pi) => {
            if has_syntax_diag {
                // with a syntax diagnostic the analyser must not even run: a panic here is a
                // gating failure, not an unsupported construct
                ctx.fail_text("gating", text, &pi.locus(), format!("the source has syntax diagnostics, yet the pipeline panicked instead of returning an empty program: {}", pi.message));
            } else {
                ctx.count("skipped_analysis_panics", 1)
            }
        }
        Ok((any_syn, nstmts, any_sem, nsem)) => {
            ctx.outcome(fnv_mix(fnv_mix(any_syn as u64, nstmts.min(3) as u64), (nsem.min(3) as u64) << 2 | p.have_parse() as u64));
            if stmts_other >= 1 {
                ctx.mark_nontrivial(fnv_str(text));
            }
            // includes of files cannot be resolved in these inputs; a text with an include of a
            // non-existent file has no *syntax* diagnostic
            if any_syn != has_syntax_diag {
                ctx.fail_text("gating", text, "analysis", format!("any_syntax_errors() = {} but the source has syntax diagnostics: {}", any_syn, has_syntax_diag));
                return;
            }
            if any_syn {
                if nstmts != 0 || any_sem || nsem != 0 {
                    ctx.fail_text("gating", text, "analysis", format!("syntax diagnostics present, yet the program has {} statements and {} semantic diagnostics", nstmts, nsem));
                }
            } else if stmts_other >= 1 && nstmts == 0 && !any_sem {
                ctx.fail_text("gating", text, "analysis", "no syntax diagnostic and at least one statement, yet the program and the semantic diagnostics are both empty: analysis did not run".into());
            }
        }
    }
}

pub fn spaces(tier: Tier, _seed: u64) -> Vec<Box<dyn Space>> {
    let mut v: Vec<Box<dyn Space>> = Vec::new();
    if let Ok(e) = c01::etok(false, 2, Render::Spaced) {
        v.push(Box::new(Splice { e }));
    }
    v.push(crate::props::c01::tok_space(true, if tier.is_thorough() { 3 } else { 2 }, Render::Spaced, gating_oracle));
    v.push(crate::props::c01::tok_space(false, 3, Render::Tight, gating_oracle));
    v
}
