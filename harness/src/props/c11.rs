//! C11 — malformed lexemes are always diagnosed and errors gate the later stages.

use crate::core::*;
use crate::props::{c01, Meta};
use crate::space::etok::Render;
use crate::subject;
use oq3_parser::{LexedStr, SyntaxKind};
use oq3_semantics::syntax_to_semantics::parse_source_string;
use oq3_syntax::AstNode;
use serde_json::{json, Value};

pub fn meta() -> Meta {
    Meta {
        level: "exploration",
        rule: "(a) every malformed lexeme generated from the reference definition of its class (unterminated strings and bit strings over 9 body atoms up to 2 atoms, unterminated nested block comments up to 3 atoms, base prefixes without digits, exponent markers without digits over 11 mantissas (decimal, and with a binary or octal prefix) x sign x underscores, malformed version headers, identifiers with a forbidden character) spliced at every position of every sequence of at most 2 tokens over the full token alphabet (unterminated forms only last); (b,c) every sequence of at most 3 tokens over the token alphabet with text-dependent and malformed variants, through parse_check_lex and the full pipeline; the file-system configurations of C18 with one directory and three files (faults in files included directly and through another file); each case enumerated once; non-trivial = splice cases with at least one neighbouring token, pipeline cases with at least one statement node; outcomes = distinct (gating decision, diagnostic counts) observations",
        assumptions: vec![
            "pipeline cases on which semantic analysis panics are C03's business and are skipped here (counted)",
            "the bare word OPENQASM (no white space after it) is a keyword for the lexer, so only header forms with white space count as malformed version headers",
        ],
    }
}

/// The malformed lexemes, generated from a reference definition of each class over a small
/// alphabet: (spelling, class, must be last).  `depth` bounds the length of the generated part.
pub fn malformed_gen(depth: usize) -> Vec<(String, &'static str, bool)> {
    fn words(atoms: &[&str], max_len: usize) -> Vec<String> {
        let mut out = vec![String::new()];
        let mut layer = vec![String::new()];
        for _ in 0..max_len {
            let mut next = Vec::new();
            for w in &layer {
                for a in atoms {
                    next.push(format!("{}{}", w, a));
                }
            }
            out.extend(next.iter().cloned());
            layer = next;
        }
        out
    }
    let mut v: Vec<(String, &'static str, bool)> = Vec::new();
    // unterminated strings: an opening quote and a body without an unescaped closing quote
    // (a backslash escapes a following backslash or quote of the same kind)
    for (q, other) in [("\"", "'"), ("'", "\"")] {
        let escaped_quote = format!("\\{}", q);
        let atoms: Vec<&str> = vec!["a", "0", "1", "_", "\\\\", &escaped_quote, other, " ", "é"];
        for body in words(&atoms, depth) {
            let bits = !body.is_empty() && body.chars().all(|c| c == '0' || c == '1' || c == '_');
            v.push((format!("{}{}", q, body), if bits { "unterminated_bitstring" } else { "unterminated_string" }, true));
        }
    }
    // unterminated block comments (comments nest): the depth never returns to 0
    for body in words(&["/*", "*/", "c", "*", "/", " "], depth + 1) {
        let text = format!("/*{}", body);
        let b = text.as_bytes();
        let (mut i, mut d, mut closed) = (0usize, 0i32, false);
        while i < b.len() {
            if i + 1 < b.len() && b[i] == b'/' && b[i + 1] == b'*' {
                d += 1;
                i += 2;
            } else if i + 1 < b.len() && b[i] == b'*' && b[i + 1] == b'/' {
                d -= 1;
                i += 2;
                if d == 0 {
                    closed = true;
                    break;
                }
            } else {
                i += 1;
            }
        }
        if !closed && d > 0 {
            v.push((text, "unterminated_comment", true));
        }
    }
    // terminated bit strings with two or more adjacent underscores (the only fault the lexer
    // knows inside a terminated literal): all bodies over {0, 1, _, __, ___}
    for (q, _) in [("\"", ()), ("'", ())] {
        for body in words(&["0", "1", "_", "__", "___"], depth + 1) {
            if body.contains("__") && body.chars().any(|c| c == '0' || c == '1') {
                v.push((format!("{}{}{}", q, body, q), "bitstring_underscores", false));
            }
        }
    }
    // integers with a base prefix and no digits (lower-case prefixes: the upper-case ones are
    // a recorded finding, see `uppercase_empty_int`)
    for p in ["0b", "0o", "0x"] {
        for u in ["", "_", "__"] {
            // alone, and directly followed by what could continue a number
            for follow in ["", ".", ".5", ".1e3", "e1", "E-2", "e", "z", "+1"] {
                if p == "0x" && follow.starts_with(|c: char| c == 'e' || c == 'E') {
                    continue; // `e` is a hexadecimal digit
                }
                v.push((format!("{}{}{}", p, u, follow), "empty_int", false));
            }
        }
    }
    for p in ["0B", "0O", "0X"] {
        for u in ["", "_"] {
            v.push((format!("{}{}", p, u), "uppercase_empty_int", false));
        }
    }
    // floats with an exponent marker and no digit after it
    for m in ["1", "0", "1.5", "1.", ".5", "10_0", "1_0.0_1", "0b1", "0o17", "0b10.", "0o7.5"] {
        for e in ["e", "E"] {
            for sign in ["", "+", "-"] {
                for u in ["", "_", "__"] {
                    v.push((format!("{}{}{}{}", m, e, sign, u), "empty_exponent", false));
                }
            }
        }
    }
    // malformed version headers
    for ws in [" ", "  "] {
        for bad in ["x", "3.", "3.x", "3x", ".5", ";", "3.0.1", "3.0.0.0", "3.0.", "3..0", "3.0x", "-3", "+3.0"] {
            v.push((format!("OPENQASM{}{}", ws, bad), "version_header", false));
        }
    }
    // identifiers containing a forbidden character
    for w in words(&["a", "_", "0", "😀", "©", "é"], depth + 1) {
        let first = w.chars().next();
        if (w.contains('😀') || w.contains('©')) && first != Some('0') {
            v.push((w, "bad_identifier", false));
        }
    }
    v.push(("#x".into(), "bad_identifier", false));
    v.sort();
    v.dedup();
    v
}

pub fn malformed() -> Vec<(String, &'static str, bool)> {
    malformed_gen(2)
}

pub struct Splice {
    pub e: crate::space::etok::ETok,
}

impl Splice {
    fn check(&self, text: &str, lo: usize, hi: usize, class: &str, ctx: &mut Ctx) {
        check_malformed(text, lo, hi, class, ctx)
    }
}

/// Malformed lexemes generated one level deeper, each alone and after one ordinary token.
pub struct Alone {
    pub depth: usize,
}

impl Alone {
    fn cases(&self) -> Vec<(String, &'static str, bool)> {
        malformed_gen(self.depth)
    }
}

impl Space for Alone {
    fn name(&self) -> String {
        format!("MALFORMED/alone/depth={}", self.depth)
    }
    fn describe(&self) -> Value {
        json!({"space": "MALFORMED alone", "depth": self.depth, "spellings": self.cases().len(), "forms": ["alone", "after `x `", "after `3 `", "as the value of an assignment (terminated forms)"], "oracles": ["lexical diagnostic on the lexeme", "gating of parse_check_lex and of the pipeline"]})
    }
    fn num_blocks(&self) -> u64 {
        (self.cases().len() as u64 + 255) / 256
    }
    fn run_block(&self, block: u64, ctx: &mut Ctx) {
        let cases = self.cases();
        let lo_i = block as usize * 256;
        for (m, class, last_only) in cases.iter().skip(lo_i).take(256) {
            for (pre, post) in [("", ""), ("x ", ""), ("3 ", ""), ("x = ", " ;")] {
                if *last_only && !post.is_empty() {
                    continue;
                }
                let text = format!("{}{}{}", pre, m, post);
                let (lo, hi) = (pre.len(), pre.len() + m.len());
                if ctx.begin(|| json!({"text": text, "lo": lo, "hi": hi, "class": class})) {
                    if !pre.is_empty() {
                        ctx.mark_nontrivial(fnv_str(&text));
                    }
                    check_malformed(&text, lo, hi, class, ctx);
                    // a lexical fault gates the lex-checked parse and the pipeline
                    gating_oracle(&text, ctx);
                }
            }
        }
    }
    fn replay(&self, case: &Value, ctx: &mut Ctx) {
        let text = case["text"].as_str().unwrap_or("");
        let lo = case["lo"].as_u64().unwrap_or(0) as usize;
        let hi = case["hi"].as_u64().unwrap_or(0) as usize;
        ctx.begin(|| case.clone());
        if lo <= hi && hi <= text.len() {
            check_malformed(text, lo, hi, case["class"].as_str().unwrap_or(""), ctx);
        }
    }
}

fn check_malformed(text: &str, lo: usize, hi: usize, class: &str, ctx: &mut Ctx) {
    {
        let r = catch(|| {
            let lexed = LexedStr::new(text);
            let hits: Vec<(usize, usize, String)> = lexed
                .errors()
                .map(|(i, m)| {
                    let r = lexed.text_range(i);
                    (r.start, r.end, m.to_string())
                })
                .collect();
            hits
        });
        let case = json!({"text": text, "lo": lo, "hi": hi, "class": class});
        match r {
            Err(p) => ctx.fail(Failure { rule: "lex_diag".into(), witness: text.into(), locus: p.locus(), detail: p.message, case }),
            Ok(hits) => {
                let on_it = hits.iter().any(|(s, e, _)| *s < hi && *e > lo);
                if !on_it {
                    ctx.fail(Failure {
                        rule: "lex_diag".into(),
                        witness: text.into(),
                        locus: class.into(),
                        detail: format!("no lexical diagnostic on the malformed lexeme `{}` (bytes {}..{}); diagnostics: {:?}", show(&text[lo..hi]), lo, hi, hits),
                        case,
                    });
                }
                ctx.outcome(fnv_mix(fnv_str(class), hits.len() as u64));
            }
        }
    }
}

impl Space for Splice {
    fn name(&self) -> String {
        format!("SPLICE/{}", self.e.name)
    }
    fn describe(&self) -> Value {
        json!({"space": "SPLICE", "malformed_spellings": malformed().len(), "malformed_sample": malformed().iter().step_by(37).map(|m| m.0.clone()).collect::<Vec<_>>(), "base": self.e.describe()["cardinality_upper_bound"], "positions": "every gap, including both ends"})
    }
    fn num_blocks(&self) -> u64 {
        self.e.num_blocks()
    }
    fn run_block(&self, block: u64, ctx: &mut Ctx) {
        let mal = malformed();
        let ls = &self.e.alpha.lexemes;
        self.e.block(block, &mut |_, idx| {
            for pos in 0..=idx.len() {
                for (m, class, last_only) in &mal {
                    if *last_only && pos != idx.len() {
                        continue;
                    }
                    // render: lexemes separated by one space, newline after line lexemes
                    let mut text = String::new();
                    let (mut lo, mut hi) = (0, 0);
                    for slot in 0..=idx.len() {
                        if slot == pos {
                            if !text.is_empty() && !text.ends_with('\n') {
                                text.push(' ');
                            }
                            lo = text.len();
                            text.push_str(m);
                            hi = text.len();
                        }
                        if slot < idx.len() {
                            if !text.is_empty() && !text.ends_with('\n') {
                                text.push(' ');
                            }
                            let l = &ls[idx[slot]];
                            text.push_str(&l.text);
                            // the bare word `pragma` followed by a blank would become a pragma
                            // line swallowing what follows
                            if l.line || l.text == "pragma" {
                                text.push('\n');
                            }
                        }
                    }
                    if ctx.begin(|| json!({"text": text, "lo": lo, "hi": hi, "class": class})) {
                        if !idx.is_empty() {
                            ctx.mark_nontrivial(fnv_str(&text));
                        }
                        self.check(&text, lo, hi, class, ctx);
                    }
                }
            }
        });
    }
    fn replay(&self, case: &Value, ctx: &mut Ctx) {
        let text = case["text"].as_str().unwrap_or("");
        let lo = case["lo"].as_u64().unwrap_or(0) as usize;
        let hi = case["hi"].as_u64().unwrap_or(0) as usize;
        ctx.begin(|| case.clone());
        if lo <= hi && hi <= text.len() {
            self.check(text, lo, hi, case["class"].as_str().unwrap_or(""), ctx);
        }
    }
}

const LEXER_MESSAGES: &[&str] = &[
    "Missing digits after the integer base prefix",
    "Missing digits after the exponent symbol",
    "Missing trailing `'` symbol to terminate the byte literal",
    "Missing trailing `\"` symbol to terminate the string literal",
    "Missing trailing `\"` symbol to terminate the bitstring literal",
    "Consecutive underscores not allowed in bitstring literal",
    "Missing trailing `*/` symbols to terminate the block comment",
    "Invalid minor version in OpenQASM version statement",
    "Invalid version number in OpenQASM version statement",
    "Identifier contains invalid characters",
];

/// (b) + (c): gating of the lex-checked parse and of the full pipeline.
pub fn gating_oracle(text: &str, ctx: &mut Ctx) {
    let lex_clean = match catch(|| LexedStr::new(text).errors_is_empty()) {
        Ok(b) => b,
        Err(_) => {
            ctx.count("skipped_not_returning", 1);
            return;
        }
    };
    let p = match subject::parse_check_lex(text) {
        Ok(p) => p,
        Err(_) => {
            ctx.count("skipped_not_returning", 1);
            return;
        }
    };
    if p.have_parse() != lex_clean {
        ctx.fail_text("gating", text, "parse_check_lex", format!("a tree is returned: {}, but the text has no lexical diagnostic: {}", p.have_parse(), lex_clean));
        return;
    }
    let lexical = |m: &str| LEXER_MESSAGES.contains(&m);
    if p.have_parse() {
        if let Some(e) = p.errors().iter().find(|e| lexical(e.message())) {
            ctx.fail_text("gating", text, "parse_check_lex", format!("a tree is returned together with the lexical diagnostic `{}`", e.message()));
        }
    } else {
        if p.errors().is_empty() {
            ctx.fail_text("gating", text, "parse_check_lex", "no tree and no diagnostic".into());
        }
        if let Some(e) = p.errors().iter().find(|e| !lexical(e.message())) {
            ctx.fail_text("gating", text, "parse_check_lex", format!("no tree, but the non-lexical diagnostic `{}` is reported", e.message()));
        }
    }
    // full pipeline
    let has_syntax_diag = !p.errors().is_empty();
    let stmts_other = if p.have_parse() {
        p.tree()
            .statements()
            .filter(|s| !matches!(s.syntax().kind(), SyntaxKind::INCLUDE | SyntaxKind::ANNOTATION_STATEMENT))
            .count()
    } else {
        0
    };
    let r = catch(|| {
        let res = parse_source_string(text, None);
        (
            res.any_syntax_errors(),
            res.program().stmts().len(),
            res.any_semantic_errors(),
            res.semantic_errors().len(),
        )
    });
    match r {
        Err(pi) => {
            if has_syntax_diag {
                // with a syntax diagnostic the analyser must not even run: a panic here is a
                // gating failure, not an unsupported construct
                ctx.fail_text("gating", text, &pi.locus(), format!("the source has syntax diagnostics, yet the pipeline panicked instead of returning an empty program: {}", pi.message));
            } else {
                ctx.count("skipped_analysis_panics", 1)
            }
        }
        Ok((any_syn, nstmts, any_sem, nsem)) => {
            ctx.outcome(fnv_mix(fnv_mix(any_syn as u64, nstmts.min(3) as u64), (nsem.min(3) as u64) << 2 | p.have_parse() as u64));
            if stmts_other >= 1 {
                ctx.mark_nontrivial(fnv_str(text));
            }
            // includes of files cannot be resolved in these inputs; a text with an include of a
            // non-existent file has no *syntax* diagnostic
            if any_syn != has_syntax_diag {
                ctx.fail_text("gating", text, "analysis", format!("any_syntax_errors() = {} but the source has syntax diagnostics: {}", any_syn, has_syntax_diag));
                return;
            }
            if any_syn {
                if nstmts != 0 || any_sem || nsem != 0 {
                    ctx.fail_text("gating", text, "analysis", format!("syntax diagnostics present, yet the program has {} statements and {} semantic diagnostics", nstmts, nsem));
                }
            } else if stmts_other >= 1 && nstmts == 0 && !any_sem {
                ctx.fail_text("gating", text, "analysis", "no syntax diagnostic and at least one statement, yet the program and the semantic diagnostics are both empty: analysis did not run".into());
            }
        }
    }
}

pub fn spaces(tier: Tier, _seed: u64) -> Vec<Box<dyn Space>> {
    let mut v: Vec<Box<dyn Space>> = Vec::new();
    if let Ok(e) = c01::etok(false, 2, Render::Spaced) {
        v.push(Box::new(Splice { e }));
    }
    v.push(Box::new(Alone { depth: if tier.is_thorough() { 4 } else { 3 } }));
    // "the source or any included file": real included files (with syntax and lexical faults at
    // include depth 1 and 2) under C18's gating oracle
    v.push(Box::new(crate::props::c18::Configs { ndirs: 1, nfiles: 3 }));
    v.push(crate::props::c01::tok_space(true, if tier.is_thorough() { 3 } else { 2 }, Render::Spaced, gating_oracle));
    v.push(crate::props::c01::tok_space(false, 3, Render::Tight, gating_oracle));
    v
}
