//! C06 — the semantic graph preserves the program's structure, order and operators.

use crate::core::*;
use crate::model::asg_form::{stmts_asg, Extractor};
use crate::model::gen::*;
use crate::model::prog::*;
use crate::model::{ProgCase, ProgSpace};
use crate::props::{gprog, Meta};
use oq3_semantics::syntax_to_semantics::parse_source_string;
use serde_json::json;

pub fn meta() -> Meta {
    Meta {
        level: "exploration",
        rule: "the supported subset of the model programs: every supported leaf template inside spines of k compound-statement contexts (block and single-statement bodies in every combination) after the declarations it needs, all sequences of n supported statements with annotation lines, and all two-operator trees and unary/postfix mixes over the supported operators in 6 expression positions; plus the file-system configurations of C18 with one directory and three files (programs with real included files, annotated includes, nested includes) whose graph must equal that of the textually inlined program; the skeleton of the graph (statement kinds, nesting, order, roles, operand and modifier order, operator identity, literal class and value, symbol names through the final table, annotations, pragma text) is compared with the one predicted from the model; non-trivial = programs with a compound statement or an operator; outcomes = distinct skeletons",
        assumptions: vec![
            "casts are transparent, declared types are not compared (C08/C09), includes of the standard library vanish, asg::IndexExpression offers no accessors so only its presence is compared",
            "programs that do not parse cleanly or on which the analyser panics are skipped here (C04/C03)",
        ],
    }
}

fn first_diff(a: &str, b: &str) -> usize {
    a.bytes().zip(b.bytes()).position(|(x, y)| x != y).unwrap_or(a.len().min(b.len()))
}

pub fn oracle(case: &ProgCase, index: u64, ctx: &mut Ctx) {
    let text = text_of(&case.stmts);
    let expected = stmts_asg(&case.stmts);
    let t2 = text.clone();
    let r = catch(move || {
        let res = parse_source_string(t2.as_str(), None);
        if res.any_syntax_errors() {
            return None;
        }
        let ex = Extractor { table: res.symbol_table() };
        Some(ex.stmts(res.program().stmts()))
    });
    let got = match r {
        Err(_) => {
            ctx.count("skipped_analysis_panics", 1);
            return;
        }
        Ok(None) => {
            ctx.count("skipped_syntax_diagnostics", 1);
            return;
        }
        Ok(Some(g)) => g,
    };
    ctx.outcome(fnv_str(&got));
    ctx.mark_nontrivial(fnv_mix(fnv_str(&case.tag), index));
    if got != expected {
        let d = first_diff(&got, &expected);
        let lo = d.saturating_sub(40);
        let e: String = expected.chars().skip(lo).take(100).collect();
        let g: String = got.chars().skip(lo).take(100).collect();
        ctx.fail(Failure {
            rule: "asg_skeleton".into(),
            witness: text.clone(),
            locus: case.tag.clone(),
            detail: format!("predicted ...{}... but the graph has ...{}...", e, g),
            case: json!({"index": index, "text": text}),
        });
        return;
    }
    // the same program with a comment in every gap between two tokens: trivia is not part of
    // the program, the graph must be the same
    let toks = print_program(&case.stmts, Parens::Minimal);
    for sep in ["/*c*/", "//c\n"] {
        let ctext = layout_uniform(&toks, sep);
        ctx.count("commented_layout_texts", 1);
        let t2 = ctext.clone();
        let r = catch(move || {
            let res = parse_source_string(t2.as_str(), None);
            if res.any_syntax_errors() {
                return None;
            }
            let ex = Extractor { table: res.symbol_table() };
            Some(ex.stmts(res.program().stmts()))
        });
        if let Ok(Some(g)) = r {
            if g != expected {
                let d = first_diff(&g, &expected);
                let lo = d.saturating_sub(40);
                let e: String = expected.chars().skip(lo).take(100).collect();
                let gg: String = g.chars().skip(lo).take(100).collect();
                ctx.fail(Failure {
                    rule: "asg_skeleton".into(),
                    witness: ctext.clone(),
                    locus: format!("{} | commented layout", case.tag),
                    detail: format!("predicted ...{}... but the graph has ...{}... (the same program laid out with blanks gives the predicted graph)", e, gg),
                    case: json!({"index": index, "text": ctext}),
                });
            }
        }
    }
}

const SUPPORTED: [BinOp; 13] = [BinOp::Add, BinOp::Sub, BinOp::Mul, BinOp::Div, BinOp::Rem, BinOp::Shl, BinOp::Shr, BinOp::BitAnd, BinOp::BitOr, BinOp::BitXor, BinOp::Eq, BinOp::Ne, BinOp::Pow];

fn supported_expr(e: &Expr) -> bool {
    match e {
        Expr::Bin(op, l, r) => SUPPORTED.contains(op) && supported_expr(l) && supported_expr(r),
        Expr::Un(op, x) => *op == UnOp::Neg && supported_expr(x) && !matches!(**x, Expr::Bool(_) | Expr::Bits(_)),
        Expr::Cast(_, x) | Expr::Paren(x) => supported_expr(x),
        Expr::Call(_, a) => a.iter().all(supported_expr),
        Expr::Index(b, i) => {
            supported_expr(b)
                && match i {
                    Index::List(items) => items.iter().all(|it| match it {
                        IndexItem::E(e) => supported_expr(e),
                        IndexItem::Range(a, s, b) => supported_expr(a) && s.as_ref().map(supported_expr).unwrap_or(true) && supported_expr(b),
                    }),
                    Index::Set(es) => es.iter().all(supported_expr),
                }
        }
        _ => true,
    }
}

fn expr_space(family: &'static str) -> Box<dyn Space> {
    let positions: [u64; 6] = [0, 1, 2, 4, 8, 11];
    let n = if family == "two_op" { N_TWO_OP } else { unary_mix().len() as u64 };
    let count = n * positions.len() as u64;
    let gen = move |i: u64| -> Option<ProgCase> {
        let pos = positions[(i / n) as usize];
        let e = if family == "two_op" { two_op(i % n) } else { unary_mix()[(i % n) as usize].clone() };
        if !supported_expr(&e) {
            return None;
        }
        let mut stmts = prelude();
        stmts.push(in_position(pos, e));
        Some(ProgCase { stmts, tag: format!("expr/{}/pos={}", family, pos) })
    };
    Box::new(ProgSpace {
        name: format!("G-PROG/sema-expr/{}", family),
        count,
        per_block: 64,
        gen: Box::new(gen),
        oracle,
        desc: json!({"space": "G-PROG expressions (supported operators)", "family": family, "positions": positions, "operators": SUPPORTED.iter().map(|o| o.text()).collect::<Vec<_>>()}),
        timeout_s: 120,
    })
}

pub fn spaces(tier: Tier, _seed: u64) -> Vec<Box<dyn Space>> {
    let mut v = vec![
        gprog::spines(0, false, true, true, oracle),
        gprog::spines(1, false, true, true, oracle),
        gprog::spines(2, false, true, true, oracle),
        gprog::spines(3, false, true, true, oracle),
        gprog::grid(0, true, true, oracle),
        gprog::grid(1, true, true, oracle),
        gprog::annotated(oracle),
        gprog::annotated_bodies(oracle),
        gprog::sequences(1, true, true, oracle),
        gprog::sequences(2, true, true, oracle),
        expr_space("two_op"),
        expr_space("unary_mix"),
        // "includes expanded in place": the graph of a program with real included files equals the
        // graph of the program with the files' text written at the include sites (C18's oracle)
        Box::new(crate::props::c18::Configs { ndirs: 1, nfiles: 3 }),
    ];
    if tier.is_thorough() {
        v.push(gprog::grid(2, true, true, oracle));
        v.push(gprog::spines(4, true, true, true, oracle));
        v.push(gprog::spines(5, true, true, true, oracle));
        v.push(gprog::sequences(3, true, true, oracle));
    }
    v
}
