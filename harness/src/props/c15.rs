//! C15 — well-formed lexemes are classified correctly regardless of neighbours and layout.

use crate::core::*;
use crate::props::Meta;
use oq3_parser::{LexedStr, SyntaxKind};
use serde_json::{json, Value};

pub fn meta() -> Meta {
    Meta {
        level: "exploration",
        rule: "all ordered pairs of the lexeme instances (every keyword and type name of SyntaxKind, 24 punctuation characters, integer spellings in 4 radices with prefix cases and underscores, float shapes, number+unit for 7 units glued and spaced, ASCII/underscore/Unicode identifiers including keyword-prefixed ones, hardware qubits, bit strings, quoted strings, comments, pragma and annotation lines, the version header) x 7 separator flavours (nothing where the pair cannot fuse), all triples with the default separator in the thorough tier, and every instance alone; every block comment whose body has at most 5 (thorough: 7) characters over {/, *, blank, c, line break, é} and which a reference scanner reads as one whole comment, between identifiers, alone, before `*` and twice (LEX/comment-bodies); each case enumerated once; non-trivial = both lexemes of the pair are non-trivia; outcomes = distinct expected kind sequences",
        assumptions: vec![
            "expected kinds come from a hand-written table in the harness (keywords and types by the naming convention <NAME>_KW / <NAME>_TY); the bare words OPENQASM and pragma are keyword lexemes only where no white space follows them (with white space they open a version header / a pragma line, which are separate instances)",
            "must_separate is a conservative character-class rule: extra separators are always allowed by the statement",
        ],
    }
}

/// A lexeme instance: source text and the non-trivia tokens it must produce.
#[derive(Clone)]
pub struct Inst {
    pub text: String,
    pub expect: Vec<(String, String)>, // (kind name, text)
    /// runs to the end of the line: the separator after it must start with a newline
    pub line: bool,
    /// must be followed by white space or `;`
    pub header: bool,
}

fn inst(text: &str, kind: &str) -> Inst {
    Inst { text: text.into(), expect: vec![(kind.into(), text.into())], line: false, header: false }
}

pub fn instances() -> Vec<Inst> {
    let mut v = Vec::new();
    // keywords and types, from SyntaxKind by the naming convention
    let last = SyntaxKind::__LAST as u16;
    for raw in 0..last {
        let k = SyntaxKind::from(raw);
        let name = format!("{:?}", k);
        if k.is_keyword() {
            if name == "O_P_E_N_Q_A_S_M_KW" || name == "PRAGMA_KW" {
                continue; // only in header / line form, below
            }
            let text = name.trim_end_matches("_KW").to_lowercase();
            v.push(inst(&text, &name));
            if name == "DIM_KW" {
                v.push(inst("#dim", "DIM_KW"));
            }
        } else if k.is_scalar_type() {
            v.push(inst(&name.trim_end_matches("_TY").to_lowercase(), &name));
        }
    }
    for (c, k) in [
        ("!", "BANG"), ("%", "PERCENT"), ("&", "AMP"), ("(", "L_PAREN"), (")", "R_PAREN"), ("*", "STAR"),
        ("+", "PLUS"), (",", "COMMA"), ("-", "MINUS"), (".", "DOT"), ("/", "SLASH"), (":", "COLON"),
        (";", "SEMICOLON"), ("<", "L_ANGLE"), ("=", "EQ"), (">", "R_ANGLE"), ("@", "AT"), ("[", "L_BRACK"),
        ("]", "R_BRACK"), ("^", "CARET"), ("{", "L_CURLY"), ("|", "PIPE"), ("}", "R_CURLY"), ("~", "TILDE"),
    ] {
        v.push(inst(c, k));
    }
    for t in ["0", "7", "17", "1_000", "007", "0b101", "0B1_0", "0b0", "0o17", "0O1_7", "0x1F", "0XaB_c", "0xdead_BEEF", "0x0", "340282366920938463463374607431768211455"] {
        v.push(inst(t, "INT_NUMBER"));
    }
    for t in ["1.5", "1.", ".5", "0.0", "1e3", "1E+3", "1.5e-3", ".5e1", "1_0.0_1", "12.e2", "1e0", "6.02E23", "0e3", "0E3", "0E-3", "0.E1", "00e1", "0_0E1"] {
        v.push(inst(t, "FLOAT_NUMBER"));
    }
    for unit in ["ns", "us", "µs", "ms", "s", "dt", "im"] {
        for (num, k) in [("3", "INT_NUMBER"), ("2.5", "FLOAT_NUMBER")] {
            for glue in ["", " "] {
                v.push(Inst {
                    text: format!("{}{}{}", num, glue, unit),
                    expect: vec![(k.into(), num.into()), ("IDENT".into(), unit.into())],
                    line: false,
                    header: false,
                });
            }
        }
    }
    for t in ["x", "_x", "x_1", "pragmatic", "OPENQASMx", "p", "pr", "O", "OPEN", "é", "π", "變", "defx", "intx", "xint", "im", "ns", "e1", "b", "x0b", "If", "Int", "__", "a1b2", "µ", "re\u{301}sume", "q\u{662}", "a\u{b7}b", "a\u{203f}b"] {
        v.push(inst(t, "IDENT"));
    }
    for t in ["$0", "$12", "$007"] {
        v.push(inst(t, "HARDWAREIDENT"));
    }
    for t in ["\"01\"", "'01'", "\"0_1\"", "\"1\"", "'1111_0000'", "\"1_0_1\"", "'1_0_1_0'", "\"10_01_11_00\""] {
        v.push(inst(t, "BIT_STRING"));
    }
    for t in ["\"abc\"", "\"a\\\"b\"", "'a b'", "\"stdgates.inc\"", "\"é😀\"", "\"012\"", "'a\\'b'", "'\\''", "\"a\\\\\"", "'a\\\\'", "'\"'", "\"'\""] {
        v.push(inst(t, "STRING"));
    }
    for t in ["/* c */", "/* /* n */ */", "/*/ c */", "/**/", "/* \n */", "/** doc **/", "/***/", "/****/", "/* x ***/", "/*********/", "/* a **/"] {
        v.push(Inst { text: t.into(), expect: vec![], line: false, header: false });
    }
    v.push(Inst { text: "// c".into(), expect: vec![], line: true, header: false });
    v.push(Inst { text: "//".into(), expect: vec![], line: true, header: false });
    v.push(Inst { text: "// c \\".into(), expect: vec![], line: true, header: false });
    v.push(Inst { text: "// é√ 変".into(), expect: vec![], line: true, header: false });
    v.push(Inst { text: "/* é√ */".into(), expect: vec![], line: false, header: false });
    for t in ["pragma a b", "#pragma a b", "pragma\ta", "pragma é√ x", "pragma Å х", "pragma ", "pragma   \t", "#pragma ", "pragma a \\", "pragma \"", "pragma /*"] {
        v.push(Inst { text: t.into(), expect: vec![("PRAGMA".into(), t.into())], line: true, header: false });
    }
    for t in ["@ann a b", "@a", "@é 1", "@ann é√変", "@QPU fast", "@X 1", "@IBM.layout 0 1", "@A_b c", "@Q1 on", "@_x", "@U", "@ann ą\u{85}", "@ann a \\", "@ann /*"] {
        v.push(Inst { text: t.into(), expect: vec![("ANNOTATION".into(), t.into())], line: true, header: false });
    }
    for t in ["OPENQASM 3.0", "OPENQASM 3", "OPENQASM  2.0", "OPENQASM\t3.1"] {
        v.push(Inst { text: t.into(), expect: vec![("VERSION_STRING".into(), t.into())], line: false, header: true });
    }
    // the two keywords that start a header / a line when white space follows are plain
    // keyword tokens when anything else follows (see `bare_word`)
    v.push(inst("OPENQASM", "O_P_E_N_Q_A_S_M_KW"));
    v.push(inst("pragma", "PRAGMA_KW"));
    v
}

/// LEXEME-IN-CONTEXT: every single-token instance (and every number + unit) written where the
/// grammar takes it -- integers, floats and bit strings as initializers and indices, hardware
/// qubits as operands of every quantum statement, identifiers as declared and assigned names,
/// timing and imaginary literals as durations and complex values.  Tokens are separated by one
/// blank (callers re-lay them out).  `standard` is false for spellings the lexer accepts
/// without complaint although the official grammar does not have them.
pub fn lexeme_context_texts() -> Vec<(String, bool)> {
    let mut v: Vec<(String, bool)> = Vec::new();
    let units = ["ns", "us", "µs", "ms", "s", "dt", "im"];
    for i in instances() {
        // pragma and annotation lines and version headers in all their spellings; a blank inside
        // the lexeme is written `¤` (callers split the texts at blanks)
        if i.expect.len() == 1 && (i.line || i.header) {
            let t = i.text.replace(' ', "¤");
            match i.expect[0].0.as_str() {
                "PRAGMA" => v.push((format!("{}\n", t), true)),
                "ANNOTATION" => v.push((format!("{}\n h r ;", t), true)),
                "VERSION_STRING" => v.push((format!("{} ;", t), true)),
                _ => {}
            }
            continue;
        }
        if i.line || i.header || i.text.contains(' ') && i.expect.len() == 1 {
            continue;
        }
        let t = &i.text;
        match (i.expect.len(), i.expect.first().map(|e| e.0.as_str())) {
            (1, Some("INT_NUMBER")) => {
                v.push((format!("int w = {} ;", t), true));
                v.push((format!("a = m [ {} ] ;", t), true));
                v.push((format!("f1 ( {} , a ) ;", t), true));
            }
            (1, Some("FLOAT_NUMBER")) => {
                v.push((format!("float w = {} ;", t), true));
                v.push((format!("rx ( {} ) r ;", t), true));
            }
            (1, Some("BIT_STRING")) => {
                v.push((format!("bit [ 4 ] w = {} ;", t), true));
                v.push((format!("m = {} ;", t), true));
            }
            (1, Some("HARDWAREIDENT")) => {
                for f in ["h {} ;", "cx {} , $1 ;", "reset {} ;", "measure {} ;", "k = measure {} ;", "barrier {} ;", "delay [ 10 ns ] {} ;", "qubit {} ;", "def fh ( ) {{ h {} ; }}"] {
                    v.push((f.replace("{{", "{").replace("}}", "}").replace("{}", t), true));
                }
            }
            (1, Some("IDENT")) if !units.contains(&t.as_str()) => {
                v.push((format!("int {} = 1 ;", t), true));
                v.push((format!("int {} ; {} = 2 ;", t, t), true));
                v.push((format!("qubit {} ; h {} ;", t, t), true));
            }
            (2, Some("INT_NUMBER")) | (2, Some("FLOAT_NUMBER")) => {
                if i.expect[1].1 == "im" {
                    v.push((format!("complex w = {} ;", t), true));
                } else {
                    v.push((format!("duration w = {} ;", t), true));
                    v.push((format!("delay [ {} ] r ;", t), true));
                }
            }
            _ => {}
        }
    }
    for t in ["$1_0", "$0_", "$1__2", "$4294967295", "$4294967296", "$340282366920938463463374607431768211456"] {
        for f in ["h {} ;", "cx {} , $1 ;", "reset {} ;", "measure {} ;", "barrier {} ;", "delay [ 10 ns ] {} ;", "qubit {} ;"] {
            v.push((f.replace("{}", t), false));
        }
    }
    v
}

/// The bare words `OPENQASM` and `pragma`: keywords of their own kind unless white space
/// follows (then they open a version header / a pragma line, which are other instances).
pub fn bare_word(a: &Inst) -> bool {
    a.expect.len() == 1 && (a.expect[0].0 == "O_P_E_N_Q_A_S_M_KW" || a.expect[0].0 == "PRAGMA_KW")
}

/// The pool plus every number spelling with every unit attached (with and without a blank):
/// used by the pair space only.
pub fn instances_with_units() -> Vec<Inst> {
    let mut v = instances();
    // every keyword and type name continued by an underscore, a digit or a letter is an
    // identifier (also the line and header keywords)
    let last = SyntaxKind::__LAST as u16;
    let mut words: Vec<String> = vec!["pragma".into(), "OPENQASM".into(), "dim".into()];
    for raw in 0..last {
        let k = SyntaxKind::from(raw);
        let name = format!("{:?}", k);
        if k.is_keyword() && name != "O_P_E_N_Q_A_S_M_KW" {
            words.push(name.trim_end_matches("_KW").to_lowercase());
        } else if k.is_scalar_type() {
            words.push(name.trim_end_matches("_TY").to_lowercase());
        }
    }
    words.sort();
    words.dedup();
    for w in words {
        for tail in ["_", "_mode", "1", "x", "é"] {
            v.push(inst(&format!("{}{}", w, tail), "IDENT"));
        }
    }
    let ints = ["0", "7", "17", "1_000", "1_0", "007", "0b101", "0b1_01", "0B1_0", "0o17", "0o1_7", "0x1F", "0x1_F", "0xA_b", "0x_1", "0XaB_c", "0xdead_BEEF", "340282366920938463463374607431768211455"];
    let floats = ["1.5", "1.", ".5", "0.0", "1e3", "1E+3", "1.5e-3", ".5e1", "1_0.0_1", "12.e2", "1e0", "6.02E23", "20.", "0.", "0e3", "0E3", "0E-3", "1E3", "2E-1"];
    for unit in ["ns", "us", "µs", "ms", "s", "dt", "im"] {
        for (nums, k) in [(&ints[..], "INT_NUMBER"), (&floats[..], "FLOAT_NUMBER")] {
            for num in nums {
                // a hexadecimal literal swallows a following `d`
                if (num.starts_with("0x") || num.starts_with("0X")) && unit.starts_with('d') {
                    continue;
                }
                if (*num == "3" || *num == "2.5") {
                    continue;
                }
                for glue in ["", " "] {
                    v.push(Inst { text: format!("{}{}{}", num, glue, unit), expect: vec![(k.into(), (*num).into()), ("IDENT".into(), unit.into())], line: false, header: false });
                }
            }
        }
    }
    v
}

pub const SEPS: &[&str] = &[" ", "\n", "\t", "/*c*/", "//c\n", "  \n ", "", "//é√\n", "/*√é*/", "\u{b}", "\u{c}", "\r\n"];

fn wordish(c: char) -> bool {
    c.is_alphanumeric() || c == '_' || !c.is_ascii() || matches!(c, '.' | '$' | '#' | '@' | '"' | '\'')
}

/// May `b` be written directly after `a`?  Conservative, lexer-free.
pub fn must_separate(a: &Inst, b: &Inst) -> bool {
    if a.line {
        return true;
    }
    let la = match a.text.chars().last() {
        Some(c) => c,
        None => return false,
    };
    let fb = match b.text.chars().next() {
        Some(c) => c,
        None => return false,
    };
    if a.header && fb != ';' {
        return true;
    }
    if wordish(la) && wordish(fb) {
        return true;
    }
    if la == '/' && (fb == '/' || fb == '*') {
        return true;
    }
    if la == '*' && fb == '/' {
        return false;
    }
    false
}

pub fn render(seq: &[&Inst], sep: &str) -> Option<String> {
    let mut out = String::new();
    for (i, l) in seq.iter().enumerate() {
        if i > 0 {
            let prev = seq[i - 1];
            if sep.is_empty() && must_separate(prev, l) {
                return None;
            }
            if bare_word(prev) && sep.starts_with(|c: char| c.is_whitespace()) {
                return None; // would be another lexeme (header / pragma line)
            }
            if prev.line && !sep.starts_with('\n') {
                out.push('\n');
            }
            if (prev.header || prev.text.ends_with('/')) && sep.starts_with('/') {
                // the separator itself must not fuse with the lexeme before it
                out.push(' ');
            }
            out.push_str(sep);
        }
        out.push_str(&l.text);
    }
    if seq.last().map(|l| l.header).unwrap_or(false) {
        out.push(' '); // the version header needs white space or `;` after it
    }
    if seq.last().map(|l| l.line).unwrap_or(false) {
        out.push('\n');
    }
    Some(out)
}

pub fn oracle_seq(seq: &[&Inst], sep: &str, ctx: &mut Ctx) {
    let text = match render(seq, sep) {
        Some(t) => t,
        None => return,
    };
    if !ctx.begin(|| json!({"text": text})) {
        return;
    }
    check_text(&text, seq, ctx);
}

fn check_text(text: &str, seq: &[&Inst], ctx: &mut Ctx) {
    let expect: Vec<(String, String)> = seq.iter().flat_map(|l| l.expect.iter().cloned()).collect();
    let r = catch(|| {
        let lexed = LexedStr::new(text);
        let got: Vec<(String, String)> = (0..lexed.len())
            .filter(|i| !lexed.kind(*i).is_trivia())
            .map(|i| (format!("{:?}", lexed.kind(i)), lexed.text(i).to_string()))
            .collect();
        let errs: Vec<String> = lexed.errors().map(|(i, m)| format!("token {}: {}", i, m)).collect();
        (got, errs)
    });
    let case = json!({"text": text, "expect": expect});
    match r {
        Err(p) => ctx.fail(Failure { rule: "classified".into(), witness: text.into(), locus: p.locus(), detail: p.message, case }),
        Ok((got, errs)) => {
            if got != expect {
                let first = got.iter().zip(expect.iter()).position(|(g, e)| g != e).unwrap_or(got.len().min(expect.len()));
                let locus = format!(
                    "expected {:?} got {:?}",
                    expect.get(first).map(|e| e.0.clone()).unwrap_or("<end>".into()),
                    got.get(first).map(|e| e.0.clone()).unwrap_or("<end>".into())
                );
                ctx.fail(Failure {
                    rule: "classified".into(),
                    witness: text.into(),
                    locus,
                    detail: format!("token table {:?}, expected {:?}", got, expect),
                    case,
                });
            } else if !errs.is_empty() {
                ctx.fail(Failure {
                    rule: "no_lex_error".into(),
                    witness: text.into(),
                    locus: errs[0].clone(),
                    detail: format!("lexical errors on well-formed lexemes: {:?}", errs),
                    case,
                });
            }
            let mut h = 0u64;
            for (k, _) in &expect {
                h = fnv_mix(h, fnv_str(k));
            }
            ctx.outcome(h);
            if seq.len() >= 2 && seq.iter().all(|l| !l.expect.is_empty()) {
                ctx.mark_nontrivial(fnv_str(text));
            }
        }
    }
}

pub struct Pairs {
    pub insts: Vec<Inst>,
    pub triples: bool,
}

impl Space for Pairs {
    fn name(&self) -> String {
        if self.triples { "LEX/triples".into() } else { "LEX/pairs".into() }
    }
    fn describe(&self) -> Value {
        json!({"space": "LEX", "instances": self.insts.len(), "separators": SEPS,
               "arity": if self.triples { 3 } else { 2 },
               "instance_texts": self.insts.iter().map(|i| i.text.clone()).collect::<Vec<_>>()})
    }
    fn num_blocks(&self) -> u64 {
        self.insts.len() as u64 + if self.triples { 0 } else { 1 }
    }
    fn run_block(&self, block: u64, ctx: &mut Ctx) {
        let n = self.insts.len();
        if block as usize == n {
            // singles: alone, with leading / trailing trivia
            for a in &self.insts {
                for (pre, post) in [("", ""), (" ", ""), ("", "\n"), ("/*c*/", " "), ("\n\t", "\n")] {
                    let post = if a.line {
                        "\n"
                    } else if bare_word(a) {
                        if post == " " { "/*c*/" } else { "" }
                    } else if a.header && post.is_empty() {
                        " "
                    } else {
                        post
                    };
                    let pre = if a.line && pre.starts_with('/') { "" } else { pre };
                    let text = format!("{}{}{}", pre, a.text, post);
                    if ctx.begin(|| json!({"text": text})) {
                        check_text(&text, &[a], ctx);
                    }
                }
            }
            return;
        }
        let a = &self.insts[block as usize];
        for b in &self.insts {
            if self.triples {
                for c in &self.insts {
                    oracle_seq(&[a, b, c], " ", ctx);
                }
            } else {
                for sep in SEPS {
                    oracle_seq(&[a, b], sep, ctx);
                }
            }
        }
    }
    fn replay(&self, case: &Value, ctx: &mut Ctx) {
        // the expected list is stored in the case, so a replay does not depend on the pool order
        let text = case["text"].as_str().unwrap_or("").to_string();
        let expect: Vec<(String, String)> = case["expect"]
            .as_array()
            .map(|a| a.iter().map(|p| (p[0].as_str().unwrap_or("").to_string(), p[1].as_str().unwrap_or("").to_string())).collect())
            .unwrap_or_default();
        let one = Inst { text: text.clone(), expect, line: false, header: false };
        ctx.begin(|| case.clone());
        check_text(&text, &[&one], ctx);
    }
}

/// Every block comment `/*` body `*/` with a body of at most `max_len` characters over
/// {`/`, `*`, blank, `c`, line break, `é`} that the reference scanner (nesting comments, written
/// here from the definition, not from the lexer) reads as exactly one terminated comment ending
/// at the end of the text: written between two identifiers, alone, and before `*` (so that a
/// comment that ends early leaves visible lexemes behind).
pub struct CommentBodies {
    pub max_len: usize,
}

const BODY_ATOMS: [char; 6] = ['/', '*', ' ', 'c', '\n', 'é'];

/// Reference: does `text` (starting with `/*`) consist of exactly one terminated comment?
fn one_whole_comment(text: &str) -> bool {
    let c: Vec<char> = text.chars().collect();
    if c.len() < 4 || c[0] != '/' || c[1] != '*' {
        return false;
    }
    let mut depth = 1usize;
    let mut i = 2;
    while i < c.len() {
        if c[i] == '/' && c.get(i + 1) == Some(&'*') {
            depth += 1;
            i += 2;
        } else if c[i] == '*' && c.get(i + 1) == Some(&'/') {
            depth -= 1;
            i += 2;
            if depth == 0 {
                return i == c.len();
            }
        } else {
            i += 1;
        }
    }
    false
}

impl CommentBodies {
    fn check_body(&self, body: &str, ctx: &mut Ctx) {
        let comment = format!("/*{}*/", body);
        if !one_whole_comment(&comment) {
            return;
        }
        let a = inst("a", "IDENT");
        let b = inst("b", "IDENT");
        let star = inst("*", "STAR");
        for (text, seq) in [(format!("a{}b", comment), vec![&a, &b]), (comment.clone(), vec![]), (format!("{}*", comment), vec![&star]), (format!("b {} {}a", comment, comment), vec![&b, &a])] {
            if ctx.begin(|| json!({"text": text})) {
                check_text(&text, &seq, ctx);
                if seq.len() == 2 {
                    ctx.mark_nontrivial(fnv_str(&text));
                }
            }
        }
    }
    fn rec(&self, body: &mut String, ctx: &mut Ctx) {
        self.check_body(body, ctx);
        if body.chars().count() >= self.max_len {
            return;
        }
        for ch in BODY_ATOMS {
            body.push(ch);
            self.rec(body, ctx);
            body.pop();
        }
    }
}

impl Space for CommentBodies {
    fn name(&self) -> String {
        format!("LEX/comment-bodies/len<={}", self.max_len)
    }
    fn describe(&self) -> Value {
        json!({"space": "LEX/comment-bodies", "atoms": BODY_ATOMS.iter().map(|c| c.to_string()).collect::<Vec<_>>(), "max_len": self.max_len,
               "note": "bodies the reference scanner does not read as one whole terminated comment are pruned (they are not well-formed lexemes)"})
    }
    fn num_blocks(&self) -> u64 {
        1 + BODY_ATOMS.len() as u64
    }
    fn run_block(&self, block: u64, ctx: &mut Ctx) {
        if block == 0 {
            self.check_body("", ctx);
            return;
        }
        let mut body = BODY_ATOMS[block as usize - 1].to_string();
        self.rec(&mut body, ctx);
    }
    fn replay(&self, case: &Value, ctx: &mut Ctx) {
        Pairs { insts: vec![], triples: false }.replay(case, ctx);
    }
}

pub fn spaces(tier: Tier, _seed: u64) -> Vec<Box<dyn Space>> {
    let max_len = match tier {
        Tier::Quick => 5,
        Tier::Thorough => 7,
    };
    vec![
        Box::new(Pairs { insts: instances_with_units(), triples: false }),
        Box::new(Pairs { insts: instances(), triples: true }),
        Box::new(CommentBodies { max_len }),
    ]
}

pub fn self_check() -> Result<(), String> {
    // must_separate must be at least as strict as needed on the instance pool: writing two
    // instances adjacently when it says "no need" must not change what either lexes to alone.
    // (If this fails the rule, not the subject, is wrong: machinery error.)
    let insts = instances();
    if insts.len() < 150 {
        return Err(format!("lexeme pool has only {} instances", insts.len()));
    }
    Ok(())
}
