//! C01 — lexing and parsing return normally on every input (no panic, no hang), with work
//! bounded by a constant factor times the number of tokens.

use crate::core::*;
use crate::props::Meta;
use crate::space::echar::{alphabets, EChar};
use crate::space::etok::{derive, ETok, Render};
use crate::space::TextSpace;
use crate::subject;
use oq3_parser::{LexedStr, StrStep, TopEntryPoint};

pub fn meta() -> Meta {
    Meta {
        level: "exploration",
        rule: "every string of at most k atoms over eleven 14-symbol critical alphabets (E-CHAR), every token sequence of at most L tokens over the full lexer-producible token alphabet derived from SyntaxKind (E-TOK, spaced, tight and comment-separated renderings; text level through both parse entry points, parser level without tree building for the longest length), and the scaling families E-SCALE; each input enumerated once; non-trivial = the tree contains at least one statement node; outcomes = distinct tree shapes",
        assumptions: vec![
            "strict build profile: debug assertions and overflow checks on",
            "hook oq3_verif: idle counter of the parser turns a non-consuming grammar loop into a panic; counters give look-aheads and events per token",
            "worker death or stall is pinpointed by re-running the block case by case in fresh processes",
            "inputs longer than the stated bounds, nesting deeper than 256 and sizes above 64 KiB are not covered",
        ],
    }
}

/// Constant factors of the linear-work clause: frozen at 4x the maxima observed on the quick
/// spaces of the unchanged tree (29.7 look-aheads and 14.3 events per token+1).
pub const K_LOOKAHEADS: u64 = 120;
pub const K_EVENTS: u64 = 60;

fn panic_rule(p: &PanicInfo) -> &'static str {
    if p.message.contains("oq3_verif: parser made no progress") || p.message.contains("the parser seems stuck") {
        "no_hang"
    } else {
        "returns_normally"
    }
}

/// Text-level oracle: both entry points, linear-work counters.
pub fn oracle(text: &str, ctx: &mut Ctx) {
    let _ = oq3_parser::verif::take_stats();
    let r = subject::parse(text);
    let stats = oq3_parser::verif::take_stats();
    let mut ok = true;
    match &r {
        Err(p) => {
            ok = false;
            ctx.fail_text(panic_rule(p), text, &p.locus(), format!("SourceFile::parse panicked at {}:{}: {}", p.file, p.line, p.message));
        }
        Ok(parse) => {
            let root = parse.syntax_node();
            ctx.outcome(subject::tree_hash(&root));
            if subject::count_statements(&root) >= 1 {
                ctx.mark_nontrivial(fnv_str(text));
            }
        }
    }
    if ok {
        if let Ok(ntok) = subject::count_tokens(text) {
            let n = ntok as u64 + 1;
            ctx.maximum("lookaheads_per_token_x100", stats.lookaheads * 100 / n);
            ctx.maximum("events_per_token_x100", stats.events * 100 / n);
            ctx.maximum("max_idle", stats.max_idle as u64);
            if stats.lookaheads > K_LOOKAHEADS * n || stats.events > K_EVENTS * n {
                ctx.fail_text(
                    "linear_work",
                    text,
                    "parser work counters",
                    format!("{} look-aheads and {} events for {} tokens (limits {} and {} per token+1)", stats.lookaheads, stats.events, ntok, K_LOOKAHEADS, K_EVENTS),
                );
            }
        }
    }
    match subject::parse_check_lex(text) {
        Err(p) => {
            // report once per input: only if the always-parse entry point did not fail the same way
            if ok {
                ctx.fail_text(panic_rule(&p), text, &p.locus(), format!("SourceFile::parse_check_lex panicked at {}:{}: {}", p.file, p.line, p.message));
            }
        }
        Ok(_) => {}
    }
}

/// Parser-level oracle (no tree building): lexer table, parser input, grammar, trivia interleaving.
pub fn oracle_parser_level(text: &str, ctx: &mut Ctx) {
    let _ = oq3_parser::verif::take_stats();
    let r = catch(|| {
        let lexed = LexedStr::new(text);
        let input = lexed.to_input();
        let output = TopEntryPoint::SourceFile.parse(&input);
        let mut depth: i64 = 0;
        let mut min_depth: i64 = 0;
        let mut bytes = 0usize;
        let mut enters = 0u64;
        let eof = lexed.intersperse_trivia(&output, &mut |s| match s {
            StrStep::Enter { .. } => {
                depth += 1;
                enters += 1;
            }
            StrStep::Exit => {
                depth -= 1;
                min_depth = min_depth.min(depth);
            }
            StrStep::Token { text, .. } => bytes += text.len(),
            StrStep::Error { .. } => {}
        });
        (eof, depth, min_depth, bytes, enters)
    });
    let stats = oq3_parser::verif::take_stats();
    match r {
        Err(p) => ctx.fail_text(panic_rule(&p), text, &p.locus(), format!("parser pipeline panicked at {}:{}: {}", p.file, p.line, p.message)),
        Ok((eof, depth, min_depth, bytes, enters)) => {
            if !eof || depth != 0 || min_depth < 0 || bytes != text.len() {
                ctx.fail_text(
                    "returns_normally",
                    text,
                    "intersperse_trivia",
                    format!("event stream malformed: eof={} final depth={} min depth={} bytes={} of {}", eof, depth, min_depth, bytes, text.len()),
                );
            }
            ctx.outcome(fnv_mix(enters, stats.bumps));
            if enters >= 2 {
                ctx.mark_nontrivial(fnv_str(text));
            }
            let n = stats.bumps + 1;
            if stats.lookaheads > K_LOOKAHEADS * n * 2 || stats.events > K_EVENTS * n * 2 {
                ctx.fail_text("linear_work", text, "parser work counters", format!("{} look-aheads and {} events for {} consumed tokens", stats.lookaheads, stats.events, stats.bumps));
            }
        }
    }
}

/// E-SCALE: scaling families; per-token work at the largest size must not exceed twice that at n = 16.
pub fn scale_families() -> Vec<(&'static str, bool, Box<dyn Fn(usize) -> String + Send + Sync>)> {
    fn rep(s: &str, n: usize) -> String {
        s.repeat(n)
    }
    let mut v: Vec<(&'static str, bool, Box<dyn Fn(usize) -> String + Send + Sync>)> = Vec::new();
    // nesting families (n up to 256)
    v.push(("paren_nest", true, Box::new(|n| format!("x = {}1{};", rep("(", n), rep(")", n)))));
    v.push(("block_nest", true, Box::new(|n| format!("{}{}", rep("{", n), rep("}", n)))));
    v.push(("if_nest", true, Box::new(|n| format!("{}x;", rep("if (1) ", n)))));
    v.push(("if_else_nest", true, Box::new(|n| format!("{}x;{}", rep("if (1) { ", n), rep(" } else y;", n)))));
    v.push(("neg_nest", true, Box::new(|n| format!("{}1;", rep("-", n)))));
    v.push(("index_chain", true, Box::new(|n| format!("a{};", rep("[0]", n)))));
    v.push(("call_nest", true, Box::new(|n| format!("{}1{};", rep("f(", n), rep(")", n)))));
    v.push(("cast_nest", true, Box::new(|n| format!("{}1{};", rep("int(", n), rep(")", n)))));
    v.push(("while_nest", true, Box::new(|n| format!("{}x;", rep("while (1) ", n)))));
    v.push(("for_nest", true, Box::new(|n| format!("{}x;", rep("for int i in [0:1] ", n)))));
    v.push(("open_paren", true, Box::new(|n| rep("(", n))));
    v.push(("open_brack", true, Box::new(|n| rep("[", n))));
    v.push(("open_curly", true, Box::new(|n| rep("{", n))));
    v.push(("close_curly", true, Box::new(|n| rep("}", n))));
    v.push(("comment_nest", true, Box::new(|n| format!("{}{}", rep("/*", n), rep("*/", n)))));
    v.push(("comment_open", true, Box::new(|n| rep("/*", n))));
    v.push(("switch_nest", true, Box::new(|n| format!("{}x;{}", rep("switch (1) { case 1 { ", n), rep(" } }", n)))));
    v.push(("ctrl_nest", true, Box::new(|n| format!("{}x q;", rep("ctrl @ ", n)))));
    v.push(("pow_nest", true, Box::new(|n| format!("{}x q;", rep("pow(2) @ ", n)))));
    v.push(("def_params", true, Box::new(|n| format!("def f({}) {{ }}", vec!["int a"; n].join(", ")))));
    // flat repetition (n up to 16384)
    v.push(("binop_chain", false, Box::new(|n| format!("x = 1{};", rep(" + 1", n)))));
    v.push(("mixed_ops", false, Box::new(|n| format!("x = 1{};", rep(" * 2 + 3 << 1", n)))));
    v.push(("stmt_seq", false, Box::new(|n| rep("x;", n))));
    v.push(("decl_seq", false, Box::new(|n| rep("int[8] a = 1;\n", n))));
    v.push(("gate_seq", false, Box::new(|n| rep("gate g q {}\n", n))));
    v.push(("gate_calls", false, Box::new(|n| rep("h q;\n", n))));
    v.push(("semis", false, Box::new(|n| rep(";", n))));
    v.push(("commas", false, Box::new(|n| format!("f({});", rep("1,", n)))));
    v.push(("qubits", false, Box::new(|n| format!("g {};", vec!["q"; n.max(1)].join(", ")))));
    v.push(("garbage_ops", false, Box::new(|n| rep("+ * / ", n))));
    v.push(("garbage_kw", false, Box::new(|n| rep("else in case ", n))));
    v.push(("unknown_chars", false, Box::new(|n| rep("§", n))));
    v.push(("multibyte_ident", false, Box::new(|n| format!("{};", rep("變", n)))));
    v.push(("string_long", false, Box::new(|n| format!("include \"{}\";", rep("a", n)))));
    v.push(("bitstring_long", false, Box::new(|n| format!("bit[4] b = \"{}\";", rep("01", n)))));
    v.push(("digits_long", false, Box::new(|n| format!("x = {};", rep("9", n)))));
    v.push(("underscores", false, Box::new(|n| format!("x = 1{}1;", rep("_", n)))));
    v.push(("line_comments", false, Box::new(|n| rep("// c\n", n))));
    v.push(("pragmas", false, Box::new(|n| rep("pragma x y z\n", n))));
    v.push(("annotations", false, Box::new(|n| format!("{}x;", rep("@a b\n", n)))));
    v.push(("whitespace", false, Box::new(|n| format!("x{};", rep(" \t\n", n)))));
    v.push(("missing_semis", false, Box::new(|n| rep("int x\n", n))));
    v.push(("bad_defs", false, Box::new(|n| rep("def f( ", n))));
    v.push(("bad_gates", false, Box::new(|n| rep("gate ", n))));
    v.push(("delay_seq", false, Box::new(|n| rep("delay[1ns] q;\n", n))));
    v.push(("version_seq", false, Box::new(|n| rep("OPENQASM 3.0;\n", n))));
    v
}

pub struct Scale {
    pub max_nest: usize,
    pub max_flat: usize,
}

impl Scale {
    fn sizes(&self, nesting: bool) -> Vec<usize> {
        let max = if nesting { self.max_nest } else { self.max_flat };
        let mut v = Vec::new();
        let mut n = 1;
        while n <= max {
            v.push(n);
            n *= 2;
        }
        v
    }
    fn run_family(&self, fi: usize, ctx: &mut Ctx, only_n: Option<usize>) {
        let fams = scale_families();
        let (name, nesting, gen) = &fams[fi];
        let mut per_token_16: Option<(u64, u64)> = None;
        for n in self.sizes(*nesting) {
            if let Some(o) = only_n {
                if o != n && n != 16 {
                    continue;
                }
            }
            let text = gen(n);
            if text.len() > 64 * 1024 {
                break;
            }
            let case = serde_json::json!({"family": name, "n": n, "witness": format!("E-SCALE {} n={}", name, n)});
            if !ctx.begin(|| case.clone()) {
                continue;
            }
            let wit = format!("E-SCALE {} n={}", name, n);
            let mut fail = |ctx: &mut Ctx, rule: &str, locus: &str, detail: String| {
                ctx.fail(Failure { rule: rule.into(), witness: wit.clone(), locus: locus.into(), detail, case: case.clone() })
            };
            let _ = oq3_parser::verif::take_stats();
            let r = subject::parse(&text);
            let stats = oq3_parser::verif::take_stats();
            match r {
                Err(p) => {
                    fail(ctx, panic_rule(&p), &p.locus(), format!("SourceFile::parse panicked at {}:{}: {}", p.file, p.line, p.message));
                    continue;
                }
                Ok(parse) => {
                    let root = parse.syntax_node();
                    if let Err(m) = subject::check_lossless(&root, &text) {
                        fail(ctx, "returns_normally", "lossless on scaling family", m);
                    }
                    ctx.outcome(fnv_mix(fi as u64, n as u64));
                    if subject::count_statements(&root) >= 1 {
                        ctx.mark_nontrivial(fnv_str(&wit));
                    }
                }
            }
            if let Err(p) = subject::parse_check_lex(&text) {
                fail(ctx, panic_rule(&p), &p.locus(), format!("SourceFile::parse_check_lex panicked: {}", p.message));
            }
            let ntok = subject::count_tokens(&text).unwrap_or(0) as u64 + 1;
            let la = stats.lookaheads * 100 / ntok;
            let ev = stats.events * 100 / ntok;
            if stats.lookaheads > K_LOOKAHEADS * ntok || stats.events > K_EVENTS * ntok {
                fail(ctx, "linear_work", "parser work counters", format!("{} look-aheads, {} events for {} tokens", stats.lookaheads, stats.events, ntok - 1));
            }
            if n == 16 {
                per_token_16 = Some((la, ev));
            }
            if n > 16 {
                if let Some((la16, ev16)) = per_token_16 {
                    if la > 2 * la16 + 100 || ev > 2 * ev16 + 100 {
                        fail(ctx, "linear_work", "super-linear growth", format!("per-token work x100 at n={}: look-aheads {} events {}; at n=16: {} and {}", n, la, ev, la16, ev16));
                    }
                }
            }
        }
    }
}

impl Space for Scale {
    fn name(&self) -> String {
        format!("E-SCALE/nest<={}/flat<={}", self.max_nest, self.max_flat)
    }
    fn describe(&self) -> serde_json::Value {
        serde_json::json!({"space": "E-SCALE", "families": scale_families().iter().map(|f| f.0).collect::<Vec<_>>(),
            "nesting_sizes": self.sizes(true), "flat_sizes": self.sizes(false), "max_bytes": 65536})
    }
    fn num_blocks(&self) -> u64 {
        scale_families().len() as u64
    }
    fn run_block(&self, block: u64, ctx: &mut Ctx) {
        self.run_family(block as usize, ctx, None);
    }
    fn replay(&self, case: &serde_json::Value, ctx: &mut Ctx) {
        let fams = scale_families();
        let name = case["family"].as_str().unwrap_or("");
        if let Some(fi) = fams.iter().position(|f| f.0 == name) {
            self.run_family(fi, ctx, case["n"].as_u64().map(|n| n as usize));
        }
    }
    fn block_timeout_s(&self) -> u64 {
        120
    }
}

/// The token-level space, or the probe on which the lexer panicked while the alphabet was
/// being derived from it (then that probe is the witness the checks run on).
pub fn etok(with_var: bool, max_len: usize, render: Render) -> Result<ETok, String> {
    match derive(with_var) {
        Ok(alpha) => Ok(ETok {
            name: format!("E-TOK/{}/{:?}/len<={}", if with_var { "tok+var" } else { "tok" }, render, max_len),
            alpha,
            max_len,
            render,
        }),
        Err(e) => match crate::space::etok::subject_panic_probe(&e) {
            Some(probe) => Err(probe.to_string()),
            None => panic!("alphabet self-check (run by the driver before any worker): {}", e),
        },
    }
}

pub fn tok_space(with_var: bool, max_len: usize, render: Render, oracle: fn(&str, &mut Ctx)) -> Box<dyn Space> {
    match etok(with_var, max_len, render) {
        Ok(e) => TextSpace::toks(e, oracle),
        Err(probe) => TextSpace::list("E-TOK/derivation-witness (the lexer panicked on a probe of the alphabet derivation)", vec![probe], 1, oracle),
    }
}

/// String and path literals in the syntactic positions whose content is validated (include
/// and defcalgrammar paths, literals in expressions), terminated and unterminated, with every
/// body of at most `depth` atoms over escapes, multi-byte characters and quotes.
pub fn literal_context_texts(depth: usize) -> Vec<String> {
    let atoms = ["a", "0", "1", "_", "\\\\", "\\n", "\\q", "\\", "é", "😀", "\\u{", "1F", "100000000", "}", "\\x", "\\\"", "'", ".inc", "/"];
    let mut bodies = vec![String::new()];
    let mut layer = vec![String::new()];
    for _ in 0..depth {
        let mut next = Vec::new();
        for w in &layer {
            for a in atoms {
                next.push(format!("{}{}", w, a));
            }
        }
        bodies.extend(next.iter().cloned());
        layer = next;
    }
    let frames = [
        ("include \"", "\";"),
        ("include \"", ""),
        ("include '", "';"),
        ("defcalgrammar \"", "\";"),
        ("x = \"", "\";"),
        ("x = \"", ""),
        ("bit[4] b = \"", "\";"),
        ("int y; include \"", "\"; int z;"),
    ];
    let mut v = Vec::new();
    for b in &bodies {
        for (pre, post) in frames {
            v.push(format!("{}{}{}", pre, b, post));
        }
    }
    v
}

/// Composite operators written with white space between their characters, slid through every
/// token position modulo 64 behind runs of tokens that touch each other (the parser keeps one
/// "joint" bit per token in 64-bit words).
pub fn joint_alignment_texts() -> Vec<String> {
    let probes = ["a < = 2;", "a + = 2;", "a = a > > 1;", "a & & a;", "a | | a;", "a = = a;", "a ! = a;", "a * * 2;", "def f() - > int { }", "a < < = 1;", "a<=2;", "a>>1;"];
    let mut v = Vec::new();
    for tight in ["a[0]=a[0];", "int[8]a;", "a<=a;"] {
        for r in 0..8usize {
            for j in 0..66usize {
                let head = format!("{}{}", tight.repeat(r), "; ".repeat(j));
                for p in probes {
                    v.push(format!("{}{}\n", head, p));
                }
            }
        }
    }
    v
}

/// Single-token faults of the statements of constructs outside the model grammar (arrays,
/// extern, calibration, old-style registers, ...): each token deleted, duplicated, and replaced
/// by each offender, among them a character the lexer does not know.
pub fn extra_fault_texts() -> Vec<String> {
    const OFFENDERS: [&str; 12] = ["§", "(", ")", "{", "}", "[", "]", ";", ",", "=", "3", "x"];
    let mut v = Vec::new();
    let mut all: Vec<String> = crate::props::c04::EXTRA_VALID.iter().map(|s| s.to_string()).collect();
    all.extend(crate::props::c15::lexeme_context_texts().into_iter().map(|(t, _)| t));
    for t in all {
        let t = t.replace('¤', " ");
        let toks: Vec<&str> = t.split(' ').collect();
        for i in 0..toks.len() {
            let mut del = toks.clone();
            del.remove(i);
            v.push(del.join(" "));
            let mut dup = toks.clone();
            dup.insert(i, toks[i]);
            v.push(dup.join(" "));
            // a run of two or three tokens written twice (one more `, e` / `: e` / `[ e ]`)
            for w in [2usize, 3] {
                if i + w <= toks.len() {
                    let mut dup = toks.clone();
                    for (k, t) in toks[i..i + w].iter().enumerate() {
                        dup.insert(i + w + k, t);
                    }
                    v.push(dup.join(" "));
                }
            }
            for o in OFFENDERS {
                if toks[i] != o {
                    let mut rep = toks.clone();
                    rep[i] = o;
                    v.push(rep.join(" "));
                }
            }
        }
    }
    v
}

/// Lists that grow: array dimensions, array literals, parameter / argument / qubit / index
/// lists and case labels with 1..=n elements, and the same with the elements missing.
pub fn growing_list_texts(n: usize) -> Vec<String> {
    let mut v = Vec::new();
    for k in 1..=n {
        let ones = vec!["2"; k].join(", ");
        let ids: Vec<String> = (0..k).map(|i| format!("p{}", i)).collect();
        v.push(format!("array[int[8], {}] a;", ones));
        v.push(format!("def f(readonly array[int[8], {}] a) {{ }}", ones));
        v.push(format!("array[int[8], {}] a = {{{}}};", k, ones));
        v.push(format!("array[int{}", ",".repeat(k)));
        v.push(format!("array[int[8]{}] a;", ", ".repeat(k)));
        v.push(format!("def f(mutable array[int{}", ",".repeat(k)));
        v.push(format!("gate g({}) q {{ }}", ids.join(", ")));
        v.push(format!("gate g {} {{ }}", ids.join(", ")));
        v.push(format!("def f({}) {{ }}", ids.iter().map(|i| format!("int {}", i)).collect::<Vec<_>>().join(", ")));
        v.push(format!("f({});", ones));
        v.push(format!("g({}) q;", ones));
        v.push(format!("h {};", ids.join(", ")));
        v.push(format!("barrier {};", ids.join(", ")));
        v.push(format!("x = m[{}];", ones));
        v.push(format!("x = m{};", "[0]".repeat(k)));
        v.push(format!("x = m[{{{}}}];", ones));
        v.push(format!("switch (a) {{ case {} {{ }} }}", ones));
        v.push(format!("for int i in {{{}}} {{ }}", ones));
        v.push(format!("extern e({}) -> int;", vec!["int"; k].join(", ")));
        v.push(format!("{} h r;", "inv @ ".repeat(k)));
        // colon-separated components (ranges) wherever a range can be written
        let colons = vec!["1"; k].join(":");
        v.push(format!("x = m[{}];", colons));
        v.push(format!("x = m[0, {}];", colons));
        v.push(format!("m[{}] = 0;", colons));
        v.push(format!("for int i in [{}] {{ }}", colons));
        v.push(format!("switch (a) {{ case {} {{ }} }}", colons));
        v.push(format!("let s = q[{{{}}}];", colons));
        v.push(format!("x = m[{}", ":".repeat(k)));
        v.push(format!("x = m[{}", "1:".repeat(k)));
        v.push(format!("f({}", ",".repeat(k)));
        v.push(format!("x = m[{}", ",".repeat(k)));
    }
    v
}

pub fn text_spaces(tier: Tier, oracle: fn(&str, &mut Ctx)) -> Vec<Box<dyn Space>> {
    let mut v: Vec<Box<dyn Space>> = Vec::new();
    v.push(TextSpace::list("GROWING-LISTS (dimension, parameter, argument, operand, index, label and modifier lists of 1..=n elements)", growing_list_texts(if tier.is_thorough() { 300 } else { 70 }), 64, oracle));
    v.push(TextSpace::list("EXTRA-FAULTS (single-token faults of constructs outside the model grammar)", extra_fault_texts(), 256, oracle));
    v.push(TextSpace::list("JOINT-ALIGN (split composite operators at every token position modulo 64)", joint_alignment_texts(), 256, oracle));
    v.push(TextSpace::list("LITERAL-CONTEXT (strings and paths where their content is validated)", literal_context_texts(if tier.is_thorough() { 4 } else { 3 }), 512, oracle));
    for a in alphabets() {
        let max_len = if tier.is_thorough() { 6 } else { 5 };
        v.push(TextSpace::chars(EChar { alpha: a, max_len }, oracle));
    }
    match tier {
        Tier::Quick => {
            v.push(tok_space(true, 3, Render::Spaced, oracle));
            v.push(tok_space(false, 3, Render::Tight, oracle));
            v.push(tok_space(false, 3, Render::Commented, oracle));
        }
        Tier::Thorough => {
            v.push(tok_space(true, 3, Render::Spaced, oracle));
            v.push(tok_space(true, 3, Render::Tight, oracle));
            v.push(tok_space(true, 3, Render::Commented, oracle));
            v.push(tok_space(false, 4, Render::Spaced, oracle));
        }
    }
    v
}

fn fault_oracle(case: &crate::model::ProgCase, index: u64, ctx: &mut Ctx) {
    // the replay regenerates the program from its index and runs all its faults again
    ctx.case_extra = Some(serde_json::json!({ "index": index }));
    crate::props::gprog::for_each_fault(case, &mut |t| {
        ctx.count("single_fault_texts", 1);
        oracle(t, ctx)
    });
    ctx.case_extra = None;
}

pub fn spaces(tier: Tier, _seed: u64) -> Vec<Box<dyn Space>> {
    let mut v = text_spaces(tier, oracle);
    v.push(crate::props::gprog::fault_programs(0, fault_oracle));
    v.push(TextSpace::list("PREFIXES/long-program", crate::props::gprog::prefix_texts(), 32, oracle));
    match tier {
        Tier::Quick => v.push(Box::new(Scale { max_nest: 64, max_flat: 1024 })),
        Tier::Thorough => {
            v.push(crate::props::gprog::fault_programs(1, fault_oracle));
            v.push(Box::new(Scale { max_nest: 256, max_flat: 16384 }));
            v.push(tok_space(false, 4, Render::Tight, oracle));
            if std::env::var("VERIF_C01_LEN5").map(|v| v != "0").unwrap_or(true) {
                if let Ok(mut e) = etok(false, 5, Render::Spaced) {
                    e.name = format!("{}/parser-level", e.name);
                    v.push(TextSpace::toks(e, oracle_parser_level));
                }
            }
        }
    }
    v
}

pub fn self_check() -> Result<(), String> {
    match derive(true) {
        Err(e) if crate::space::etok::subject_panic_probe(&e).is_none() => Err(e),
        _ => Ok(()), // a panic of the subject is reported by the spaces, on the probe
    }
}
