//! C09 — declared symbols carry exactly the declared type.

use crate::core::*;
use crate::props::c07::walk_symbols;
use crate::props::Meta;
use oq3_semantics::asg;
use oq3_semantics::symbols::SymbolType;
use oq3_semantics::syntax_to_semantics::parse_source_string;
use oq3_semantics::types::{ArrayDims, IsConst, SubroutineDef, Type};
use serde_json::{json, Value};
use std::collections::BTreeMap;

pub fn meta() -> Meta {
    Meta {
        level: "exploration",
        rule: "declaration forms (plain, const, input, output, loop variable, subroutine parameter) x 12 scalar type spellings x a width set (quick: 20 values across [1, 2^32); thorough: every width 1..1024 and 2^k, 2^k +- 1 for k <= 33) given as literal and through const identifiers of 5 integer types, in 8 scope kinds; qubit registers; out-of-range, negative, float, non-constant, input and undeclared designators; every gate signature with 0-4 parameters and 1-4 qubits and every subroutine signature with 0-4 parameters and each return type, with and without the standard library; the type recorded in the symbol table must be the declared one; non-trivial = declarations with a width or a signature; outcomes = distinct recorded types",
        assumptions: vec![
            "programs on which the analyser panics (negative or expression designators) are C03's and are skipped here (counted)",
            "the const-ness of a subroutine's recorded return type is not compared (it is not written in the source)",
        ],
    }
}

#[derive(Clone, Debug)]
pub struct Case {
    pub text: String,
    pub tag: String,
    /// name -> expected type
    pub expect: Vec<(String, Type)>,
    /// a diagnostic about the designator is required; the named symbol must not carry one of these widths
    pub bad_width: Option<(String, Vec<u32>)>,
    /// expected gate listing (name, params, qubits), sorted; None = not checked
    pub gates: Option<Vec<(String, usize, usize)>>,
    pub def_ret: Option<(String, Type)>,
    pub nontrivial: bool,
}

pub const BASES: [&str; 15] = ["bit", "bitw", "int", "intw", "uintw", "floatw", "float", "anglew", "complexw", "complex", "bool", "duration", "stretch", "uint", "angle"];

/// Source spelling and recorded type of base `b` with width `w` and const flag `c`.
pub fn spell(b: &str, w: u32, c: bool) -> (String, Type) {
    let k: IsConst = c.into();
    match b {
        "bit" => ("bit".into(), Type::Bit(k)),
        "bitw" => (format!("bit[{}]", w), Type::BitArray(ArrayDims::D1(w as usize), k)),
        "int" => ("int".into(), Type::Int(None, k)),
        "intw" => (format!("int[{}]", w), Type::Int(Some(w), k)),
        "uintw" => (format!("uint[{}]", w), Type::UInt(Some(w), k)),
        "float" => ("float".into(), Type::Float(None, k)),
        "floatw" => (format!("float[{}]", w), Type::Float(Some(w), k)),
        "anglew" => (format!("angle[{}]", w), Type::Angle(Some(w), k)),
        "complexw" => (format!("complex[float[{}]]", w), Type::Complex(Some(w), k)),
        "complex" => ("complex".into(), Type::Complex(None, k)),
        "bool" => ("bool".into(), Type::Bool(k)),
        "stretch" => ("stretch".into(), Type::Stretch(k)),
        "uint" => ("uint".into(), Type::UInt(None, k)),
        "angle" => ("angle".into(), Type::Angle(None, k)),
        _ => ("duration".into(), Type::Duration(k)),
    }
}

fn has_width(b: &str) -> bool {
    b.ends_with('w')
}

fn init_for(b: &str) -> &'static str {
    match b {
        "bit" => "\"1\"",
        "bitw" => "\"1\"",
        "float" | "floatw" | "anglew" => "0.5",
        "complexw" | "complex" => "2.0im",
        "bool" => "true",
        "duration" | "stretch" => "10ns",
        "angle" => "0.5",
        _ => "1",
    }
}

pub const SCOPES: [(&str, &str, &str); 8] = [
    ("global", "", ""),
    ("if", "if (true) { ", " }"),
    ("else", "if (true) { } else { ", " }"),
    ("while", "while (true) { ", " }"),
    ("for", "for int i in [0:1] { ", " }"),
    ("case", "switch (1) { case 1 { ", " } }"),
    ("gate", "gate gg qq { ", " }"),
    ("def", "def ff() { ", " }"),
];

pub fn widths(thorough: bool) -> Vec<u32> {
    let mut v: Vec<u32> = if thorough { (1..=4096).collect() } else { (1..=1024).collect() };
    let top = 33;
    for k in 10..=top {
        for d in [-1i64, 0, 1] {
            let x = (1i64 << k) + d;
            if x >= 1 && x <= u32::MAX as i64 && (thorough || true) {
                v.push(x as u32);
            }
        }
    }
    v.sort_unstable();
    v.dedup();
    v
}

fn scalar_cases(ws: &[u32], out: &mut Vec<Case>) {
    for b in BASES {
        let wlist: Vec<u32> = if has_width(b) { ws.to_vec() } else { vec![0] };
        for w in wlist {
            // bit registers of billions of bits are fine for the symbol table (no allocation)
            let nt = has_width(b);
            for (sname, pre, post) in SCOPES {
                let (sp, ty) = spell(b, w, false);
                out.push(Case { text: format!("{}{} x;{}", pre, sp, post), tag: format!("plain/{}/{}", b, sname), expect: vec![("x".into(), ty)], bad_width: None, gates: None, def_ret: None, nontrivial: nt });
                if sname == "global" || sname == "if" || sname == "def" {
                    let (sp, ty) = spell(b, w, true);
                    // the initializer must have the declared type class; a width-1 bit register gets "1"
                    let init = if b == "bitw" { format!("\"{}\"", "1".repeat((w as usize).min(8))) } else { init_for(b).to_string() };
                    if b != "bitw" || w <= 8 {
                        out.push(Case { text: format!("{}const {} x = {};{}", pre, sp, init, post), tag: format!("const/{}/{}", b, sname), expect: vec![("x".into(), ty)], bad_width: None, gates: None, def_ret: None, nontrivial: nt });
                    }
                }
            }
            let (sp, ty) = spell(b, w, false);
            out.push(Case { text: format!("input {} x;", sp), tag: format!("input/{}", b), expect: vec![("x".into(), ty.clone())], bad_width: None, gates: None, def_ret: None, nontrivial: nt });
            out.push(Case { text: format!("output {} x;", sp), tag: format!("output/{}", b), expect: vec![("x".into(), ty.clone())], bad_width: None, gates: None, def_ret: None, nontrivial: nt });
            out.push(Case { text: format!("for {} x in [0:1] {{ }}", sp), tag: format!("loopvar/{}", b), expect: vec![("x".into(), ty.clone())], bad_width: None, gates: None, def_ret: None, nontrivial: nt });
            out.push(Case {
                text: format!("def ff({} x, int y) {{ }}", sp),
                tag: format!("defparam/{}", b),
                expect: vec![("x".into(), ty.clone()), ("y".into(), Type::Int(None, IsConst::False)), ("ff".into(), Type::SubroutineDef(SubroutineDef { num_params: 2, return_type: Box::new(Type::Void) }))],
                bad_width: None,
                gates: None,
                def_ret: None,
                nontrivial: nt,
            });
        }
    }
}

fn const_ident_cases(ws: &[u32], out: &mut Vec<Case>) {
    for ct in ["int", "uint", "int[32]", "uint[64]", "int[128]", "uint[128]"] {
        for w in ws {
            for b in ["intw", "uintw", "bitw", "floatw", "anglew", "complexw"] {
                let (sp, ty) = spell(b, *w, false);
                let sp = sp.replace(&format!("[{}]", w), "[n]");
                out.push(Case { text: format!("const {} n = {}; {} x;", ct, w, sp), tag: format!("constwidth/{}/{}", ct, b), expect: vec![("x".into(), ty)], bad_width: None, gates: None, def_ret: None, nontrivial: true });
            }
            out.push(Case { text: format!("const {} n = {}; qubit[n] x;", ct, w), tag: format!("constwidth/{}/qubit", ct), expect: vec![("x".into(), Type::QubitArray(ArrayDims::D1(*w as usize)))], bad_width: None, gates: None, def_ret: None, nontrivial: true });
            out.push(Case { text: format!("const {} n = {}; if (true) {{ int[n] x; }}", ct, w), tag: format!("constwidth/{}/inner", ct), expect: vec![("x".into(), Type::Int(Some(*w), IsConst::False))], bad_width: None, gates: None, def_ret: None, nontrivial: true });
        }
    }
}

/// A const used as width after another declaration of the same name came and went in an inner
/// scope: the width is the one of the const that is visible at the use.
fn shadowed_const_cases(out: &mut Vec<Case>) {
    for w in [1u32, 8, 32, 64] {
        for ct in ["int", "uint[64]", "int[128]"] {
            for inner in ["const int n = {};", "const int[128] n = {};", "const uint n = {};", "const float n = 2.5;", "int n = {};", "bit n;"] {
                let inner = inner.replace("{}", &(w + 8).to_string());
                for (sname, pre, post) in [("if", "if (true) { ", " }"), ("else", "if (true) { } else { ", " }"), ("for", "for int i in [0:1] { ", " }"), ("while", "while (true) { ", " }"), ("case", "switch (1) { case 1 { ", " } }"), ("def", "def f() { ", " }")] {
                    for (decl, ty) in [("int[n] x;", Type::Int(Some(w), IsConst::False)), ("bit[n] x;", Type::BitArray(ArrayDims::D1(w as usize), IsConst::False)), ("qubit[n] x;", Type::QubitArray(ArrayDims::D1(w as usize)))] {
                        out.push(Case { text: format!("const {} n = {}; {}{}{} {}", ct, w, pre, inner, post, decl), tag: format!("shadowed-const/{}/{}", sname, ct), expect: vec![("x".into(), ty)], bad_width: None, gates: None, def_ret: None, nontrivial: true });
                    }
                }
            }
        }
    }
}

/// An outer integer const hidden, where the width is written, by a binding of the same name
/// that is not a constant integer (a local, a loop variable, a subroutine parameter -- used in
/// the body and in a later parameter of the same list): the width is not constant, whatever
/// the outer const says.  And the reverse: the hiding binding comes only after the use.
fn hidden_const_cases(out: &mut Vec<Case>) {
    let decls = ["int[n] x", "uint[n] x", "bit[n] x", "qubit[n] x", "float[n] x", "angle[n] x", "complex[float[n]] x"];
    for ct in ["int", "uint[64]", "int[128]"] {
        for w in [4u32, 8] {
            let pre = format!("const {} n = {};", ct, w);
            let wrong = vec![w, 3, 1];
            for d in decls {
                let mut bad = |tag: &str, text: String| {
                    out.push(Case { text, tag: format!("hidden-const/{}/{}", tag, ct), expect: vec![], bad_width: Some(("x".into(), wrong.clone())), gates: None, def_ret: None, nontrivial: true });
                };
                for (sname, a, b) in SCOPES.iter().filter(|s| s.0 != "global" && s.0 != "gate") {
                    bad(&format!("local-{}", sname), format!("{} {}int n = 3; {};{}", pre, a, d, b));
                    bad(&format!("outer-local-{}", sname), format!("{} {}int n = 3; if (true) {{ {}; }}{}", pre, a, d, b));
                }
                bad("loopvar", format!("{} for int n in [0:3] {{ {}; }}", pre, d));
                bad("param-body", format!("{} def ff(int n) {{ {}; }}", pre, d));
                bad("param-body-second", format!("{} def ff(bit k, int n) {{ {}; }}", pre, d));
                bad("param-param", format!("{} def ff(int n, {}) {{ }}", pre, d));
                bad("param-param-far", format!("{} def ff(int n, bit k, {}) {{ }}", pre, d));
                bad("qubit-param-param", format!("{} def ff(qubit n, {}) {{ }}", pre, d));
            }
            for (d, ty) in [("int[n] x", Type::Int(Some(w), IsConst::False)), ("bit[n] x", Type::BitArray(ArrayDims::D1(w as usize), IsConst::False)), ("qubit[n] x", Type::QubitArray(ArrayDims::D1(w as usize)))] {
                for (tag, text) in [
                    ("param-before-hider", format!("{} def ff({}, int n) {{ }}", pre, d)),
                    ("param-other-name", format!("{} def ff(int m, {}) {{ }}", pre, d)),
                    ("local-before-hider", format!("{} if (true) {{ {}; int n = 3; }}", pre, d)),
                    ("hider-in-other-def", format!("{} def gg(int n) {{ }} def ff({}) {{ }}", pre, d)),
                ] {
                    out.push(Case { text, tag: format!("hidden-const/{}/{}", tag, ct), expect: vec![("x".into(), ty.clone())], bad_width: None, gates: None, def_ret: None, nontrivial: true });
                }
            }
        }
    }
}

/// The same designator name used by two declarations in a row: each use is judged on its own
/// (a usable const gives both their width, an unusable one is diagnosed both times and the
/// second declaration does not silently get another width either).
fn repeated_designator_cases(out: &mut Vec<Case>) {
    let pairs = [("int[n] x;", "uint[n] y;"), ("bit[n] x;", "bit[n] y;"), ("qubit[n] x;", "int[n] y;"), ("float[n] x;", "angle[n] y;"), ("int[n] x;", "if (true) { int[n] y; }"), ("complex[float[n]] x;", "bit[n] y;")];
    for (tag, pre) in [("nonliteral", "const int n = 2 * 4;"), ("negative", "const int n = -3;"), ("float", "const float n = 3.0;"), ("nonconst", "int n = 3;"), ("undeclared", ""), ("pi", "const float n = pi;"), ("toolarge", "const int n = 4294967296;")] {
        for (d1, d2) in pairs {
            out.push(Case { text: format!("{} {} {}", pre, d1, d2), tag: format!("twice-bad/{}", tag), expect: vec![], bad_width: Some(("y".into(), vec![0, 1, 3, 8])), gates: None, def_ret: None, nontrivial: true });
        }
    }
    for w in [1u32, 8, 64] {
        for ct in ["int", "uint[64]"] {
            out.push(Case { text: format!("const {} n = {}; int[n] x; uint[n] y; bit[n] z;", ct, w), tag: format!("twice-good/{}", ct), expect: vec![("x".into(), Type::Int(Some(w), IsConst::False)), ("y".into(), Type::UInt(Some(w), IsConst::False)), ("z".into(), Type::BitArray(ArrayDims::D1(w as usize), IsConst::False))], bad_width: None, gates: None, def_ret: None, nontrivial: true });
            out.push(Case { text: format!("const {} n = {}; int[n] x; if (true) {{ const int n = {}; int[n] y; }} bit[n] z;", ct, w, w + 8), tag: format!("twice-good-shadow/{}", ct), expect: vec![("x".into(), Type::Int(Some(w), IsConst::False)), ("y".into(), Type::Int(Some(w + 8), IsConst::False)), ("z".into(), Type::BitArray(ArrayDims::D1(w as usize), IsConst::False))], bad_width: None, gates: None, def_ret: None, nontrivial: true });
        }
    }
}

/// Widths and lengths written in every radix and with underscores and leading zeros.
fn radix_width_cases(out: &mut Vec<Case>) {
    for w in [1u32, 8, 9, 10, 15, 16, 17, 31, 32, 64, 100, 255] {
        let spellings = [format!("0x{:x}", w), format!("0X{:X}", w), format!("0x0{:x}", w), format!("0o{:o}", w), format!("0b{:b}", w), format!("0B{:b}", w), format!("0b_{:b}", w), format!("00{}", w), format!("{}_", w).trim_end_matches('_').to_string(), if w >= 10 { format!("{}_{}", w / 10, w % 10) } else { format!("0_{}", w) }];
        for sp in spellings {
            for b in ["intw", "uintw", "bitw", "floatw", "anglew", "complexw"] {
                let (text, ty) = spell(b, w, false);
                let text = text.replace(&format!("[{}]", w), &format!("[{}]", sp));
                out.push(Case { text: format!("{} x;", text), tag: format!("radixwidth/{}", b), expect: vec![("x".into(), ty)], bad_width: None, gates: None, def_ret: None, nontrivial: true });
            }
            out.push(Case { text: format!("qubit[{}] x;", sp), tag: "radixwidth/qubit".into(), expect: vec![("x".into(), Type::QubitArray(ArrayDims::D1(w as usize)))], bad_width: None, gates: None, def_ret: None, nontrivial: true });
            out.push(Case { text: format!("const int n = {}; int[n] x;", sp), tag: "radixwidth/const".into(), expect: vec![("x".into(), Type::Int(Some(w), IsConst::False))], bad_width: None, gates: None, def_ret: None, nontrivial: true });
        }
    }
}

fn bad_cases(out: &mut Vec<Case>) {
    // (designator prelude, designator text, widths that must not be recorded)
    let big: [u64; 6] = [4294967296, 4294967297, 4294967296 + 32, 8589934592, 8589934593, 1 << 40];
    for v in big {
        let wrong = vec![(v & 0xffff_ffff) as u32];
        for (tag, decl) in [("int", "int[{}] x;"), ("uint", "uint[{}] x;"), ("bit", "bit[{}] x;"), ("float", "float[{}] x;"), ("angle", "angle[{}] x;"), ("qubit", "qubit[{}] x;"), ("complex", "complex[float[{}]] x;")] {
            out.push(Case { text: decl.replace("{}", &v.to_string()), tag: format!("toolarge/{}", tag), expect: vec![], bad_width: Some(("x".into(), wrong.clone())), gates: None, def_ret: None, nontrivial: true });
            out.push(Case { text: format!("const int n = {}; {}", v, decl.replace("{}", "n")), tag: format!("toolarge-const/{}", tag), expect: vec![], bad_width: Some(("x".into(), wrong.clone())), gates: None, def_ret: None, nontrivial: true });
        }
    }
    // negative widths: written directly, and through a const of every integer type (a const of
    // the literal's own type int[128] is stored without a cast)
    for v in [1i64, 3, 8, 32] {
        let wrong = vec![v as u32, (-v) as u32, 1];
        for decl in ["int[{}] x;", "uint[{}] x;", "bit[{}] x;", "qubit[{}] x;", "float[{}] x;", "angle[{}] x;", "complex[float[{}]] x;"] {
            out.push(Case { text: decl.replace("{}", &format!("-{}", v)), tag: "negative/literal".into(), expect: vec![], bad_width: Some(("x".into(), wrong.clone())), gates: None, def_ret: None, nontrivial: true });
            for ct in ["int", "int[8]", "int[32]", "int[64]", "int[128]"] {
                out.push(Case { text: format!("const {} n = -{}; {}", ct, v, decl.replace("{}", "n")), tag: format!("negative-const/{}", ct), expect: vec![], bad_width: Some(("x".into(), wrong.clone())), gates: None, def_ret: None, nontrivial: true });
                out.push(Case { text: format!("const {} n = -{}; if (true) {{ {} }}", ct, v, decl.replace("{}", "n")), tag: format!("negative-const-inner/{}", ct), expect: vec![], bad_width: Some(("x".into(), wrong.clone())), gates: None, def_ret: None, nontrivial: true });
            }
        }
    }
    for v in [4294967296u64, 4294967297, 1 << 40] {
        let wrong = vec![(v & 0xffff_ffff) as u32];
        for ct in ["int[64]", "int[128]", "uint[64]", "uint[128]", "uint"] {
            for decl in ["int[n] x;", "bit[n] x;", "qubit[n] x;", "complex[float[n]] x;"] {
                out.push(Case { text: format!("const {} n = {}; {}", ct, v, decl), tag: format!("toolarge-const/{}", ct), expect: vec![], bad_width: Some(("x".into(), wrong.clone())), gates: None, def_ret: None, nontrivial: true });
            }
        }
    }
    for (tag, pre) in [("nonconst", "int n = 3;"), ("input", "input int n;"), ("undeclared", ""), ("negative", "const int n = -3;"), ("float", "const float n = 3.0;"), ("bool", "const bool n = true;"), ("loopvar", "for int n in [0:3] {"), ("qubit", "qubit n;")] {
        for decl in ["int[n] x;", "bit[n] x;", "qubit[n] x;", "float[n] x;", "complex[float[n]] x;"] {
            let post = if tag == "loopvar" { " }" } else { "" };
            out.push(Case { text: format!("{} {}{}", pre, decl, post), tag: format!("notconstint/{}", tag), expect: vec![], bad_width: Some(("x".into(), vec![3, 1])), gates: None, def_ret: None, nontrivial: true });
        }
    }
}

pub const STDGATES: [(&str, usize, usize); 32] = [
    ("x", 0, 1), ("y", 0, 1), ("z", 0, 1), ("h", 0, 1), ("s", 0, 1), ("sdg", 0, 1), ("t", 0, 1), ("tdg", 0, 1), ("sx", 0, 1), ("id", 0, 1),
    ("p", 1, 1), ("rx", 1, 1), ("ry", 1, 1), ("rz", 1, 1), ("phase", 1, 1), ("u1", 1, 1), ("u2", 2, 1), ("u3", 3, 1),
    ("cx", 0, 2), ("cy", 0, 2), ("cz", 0, 2), ("ch", 0, 2), ("swap", 0, 2), ("CX", 0, 2),
    ("cp", 1, 2), ("crx", 1, 2), ("cry", 1, 2), ("crz", 1, 2), ("cphase", 1, 2), ("cu", 4, 2), ("ccx", 0, 3), ("cswap", 0, 3),
];

fn signature_cases(out: &mut Vec<Case>) {
    for include in [false, true] {
        let pre = if include { "include \"stdgates.inc\"; " } else { "" };
        for np in 0..=4usize {
            for nq in 1..=4usize {
                let params: Vec<String> = (0..np).map(|i| format!("pa{}", i)).collect();
                let qubits: Vec<String> = (0..nq).map(|i| format!("qa{}", i)).collect();
                let plist = if np == 0 { String::new() } else { format!("({})", params.join(", ")) };
                let mut expect: Vec<(String, Type)> = vec![("gg".into(), Type::Gate(np, nq))];
                for p in &params {
                    expect.push((p.clone(), Type::Angle(None, IsConst::True)));
                }
                for q in &qubits {
                    expect.push((q.clone(), Type::Qubit));
                }
                let mut gates: Vec<(String, usize, usize)> = vec![("gg".into(), np, nq), ("g2".into(), 1, 2)];
                if include {
                    gates.extend(STDGATES.iter().map(|(n, p, q)| (n.to_string(), *p, *q)));
                }
                gates.sort();
                out.push(Case { text: format!("{}gate gg{} {} {{ }} gate g2(t) a, b {{ }}", pre, plist, qubits.join(", ")), tag: format!("gate/{}x{}", np, nq), expect, bad_width: None, gates: Some(gates), def_ret: None, nontrivial: true });
            }
        }
    }
    // a user symbol named like a library gate, declared before the include: the include reports
    // that one clash and still declares every other gate of the library
    for (gi, (gname, _, _)) in STDGATES.iter().enumerate() {
        for form in 0..2 {
            let (decl, own): (String, Option<(usize, usize)>) = if form == 0 { (format!("gate {} w1, w2, w3, w4 {{ }}", gname), Some((0, 4))) } else { (format!("int {} = 1;", gname), None) };
            let mut gates: Vec<(String, usize, usize)> = STDGATES.iter().enumerate().filter(|(i, _)| *i != gi).map(|(_, (n, p, q))| (n.to_string(), *p, *q)).collect();
            if let Some((p, q)) = own {
                gates.push((gname.to_string(), p, q));
            }
            gates.sort();
            out.push(Case { text: format!("{} include \"stdgates.inc\";", decl), tag: format!("library-clash/{}", if form == 0 { "gate" } else { "int" }), expect: vec![], bad_width: None, gates: Some(gates), def_ret: None, nontrivial: true });
        }
    }
    let ptypes = ["intw", "floatw", "bit", "anglew", "bool", "bitw", "complexw", "uintw"];
    let rets = ["none", "bit", "bitw", "int", "intw", "uintw", "floatw", "float", "anglew", "complexw", "complex", "bool", "duration"];
    for np in 0..=4usize {
        for (ri, ret) in rets.iter().enumerate() {
            let mut expect: Vec<(String, Type)> = Vec::new();
            let mut ps = Vec::new();
            for i in 0..np {
                let b = ptypes[(i + ri) % ptypes.len()];
                let (sp, ty) = spell(b, 8 + i as u32, false);
                ps.push(format!("{} pa{}", sp, i));
                expect.push((format!("pa{}", i), ty));
            }
            let (rsp, rty) = if *ret == "none" { (String::new(), Type::Void) } else { let (s, t) = spell(ret, 16, false); (format!(" -> {}", s), t) };
            expect.push(("ff".into(), Type::SubroutineDef(SubroutineDef { num_params: np, return_type: Box::new(rty.clone()) })));
            out.push(Case { text: format!("def ff({}){} {{ }}", ps.join(", "), rsp), tag: format!("def/{}/{}", np, ret), expect, bad_width: None, gates: Some(vec![]), def_ret: Some(("ff".into(), rty)), nontrivial: true });
        }
    }
    // a parameter that repeats the name of an earlier one is diagnosed as a redeclaration, and
    // still counts: the recorded parameter count is the number of parameters written
    for np in 2..=4usize {
        for i in 0..np {
            for j in i + 1..np {
                let mut ps = Vec::new();
                for k in 0..np {
                    let b = ptypes[k % ptypes.len()];
                    let (sp, _) = spell(b, 8 + k as u32, false);
                    ps.push(format!("{} pa{}", sp, if k == j { i } else { k }));
                }
                out.push(Case {
                    text: format!("def ff({}) {{ }}", ps.join(", ")),
                    tag: format!("def-repeated-param/{}/{}={}", np, j, i),
                    expect: vec![("ff".into(), Type::SubroutineDef(SubroutineDef { num_params: np, return_type: Box::new(Type::Void) }))],
                    bad_width: None,
                    gates: Some(vec![]),
                    def_ret: Some(("ff".into(), Type::Void)),
                    nontrivial: true,
                });
            }
        }
    }
    // designators of parameter and return types given by a const identifier, also when a
    // parameter of the subroutine has that very name (the signature is resolved outside it)
    for w in [4u32, 8, 16] {
        for ret in ["intw", "uintw", "bitw", "floatw", "anglew"] {
            let (rsp, rty) = spell(ret, w, false);
            let rsp = rsp.replace(&format!("[{}]", w), "[n]");
            let sig = Type::SubroutineDef(SubroutineDef { num_params: 1, return_type: Box::new(rty.clone()) });
            for (ptag, param, pty) in [("int", "int n", Type::Int(None, IsConst::False)), ("qubit", "qubit n", Type::Qubit), ("other", "int m", Type::Int(None, IsConst::False)), ("widthparam", "int[n] n", Type::Int(Some(w), IsConst::False)), ("bitparam", "bit[n] n", Type::BitArray(ArrayDims::D1(w as usize), IsConst::False))] {
                let pname = if ptag == "other" { "m" } else { "n" };
                let _ = pname;
                out.push(Case { text: format!("const int n = {}; def ff({}) -> {} {{ }}", w, param, rsp), tag: format!("def-const-designator/{}/{}", ptag, ret), expect: vec![("ff".into(), sig.clone())], bad_width: None, gates: Some(vec![]), def_ret: Some(("ff".into(), rty.clone())), nontrivial: true });
                let _ = pty;
            }
        }
    }
    // qubit parameters and registers
    for w in [1u32, 2, 5, 1024] {
        out.push(Case { text: format!("qubit[{}] x; qubit y;", w), tag: "qubitreg".into(), expect: vec![("x".into(), Type::QubitArray(ArrayDims::D1(w as usize))), ("y".into(), Type::Qubit)], bad_width: None, gates: None, def_ret: None, nontrivial: true });
        out.push(Case { text: format!("def ff(qubit[{}] x, qubit y) {{ }}", w), tag: "qubitparam".into(), expect: vec![("x".into(), Type::QubitArray(ArrayDims::D1(w as usize))), ("y".into(), Type::Qubit)], bad_width: None, gates: None, def_ret: None, nontrivial: true });
    }
}

fn unconst_ret(t: &Type) -> Type {
    match t {
        Type::SubroutineDef(d) => Type::SubroutineDef(SubroutineDef { num_params: d.num_params, return_type: Box::new(unconst(&d.return_type)) }),
        other => other.clone(),
    }
}

fn unconst(t: &Type) -> Type {
    use Type::*;
    let f = IsConst::False;
    match t {
        Bit(_) => Bit(f),
        Int(w, _) => Int(*w, f),
        UInt(w, _) => UInt(*w, f),
        Float(w, _) => Float(*w, f),
        Angle(w, _) => Angle(*w, f),
        Complex(w, _) => Complex(*w, f),
        Bool(_) => Bool(f),
        Duration(_) => Duration(f),
        Stretch(_) => Stretch(f),
        BitArray(d, _) => BitArray(d.clone(), f),
        other => other.clone(),
    }
}

fn width_of(t: &Type) -> Option<u32> {
    match t {
        Type::BitArray(d, _) | Type::QubitArray(d) => d.dims().first().map(|x| *x as u32),
        other => other.width(),
    }
}

pub fn check(c: &Case, ctx: &mut Ctx) {
    let case = json!({"text": c.text, "tag": c.tag});
    if !ctx.begin(|| case.clone()) {
        return;
    }
    let mut fail = |ctx: &mut Ctx, locus: String, detail: String| ctx.fail(Failure { rule: "symbol_type".into(), witness: c.text.clone(), locus: format!("{} | {}", locus, c.tag), detail, case: case.clone() });
    let text = c.text.clone();
    let r = catch(move || {
        let res = parse_source_string(text.as_str(), None);
        if res.any_syntax_errors() {
            return None;
        }
        let table = res.symbol_table();
        let mut types: BTreeMap<String, Vec<Type>> = BTreeMap::new();
        for r in walk_symbols(res.program().stmts()).into_iter().flatten() {
            let s = &table[&r];
            types.entry(s.name().to_string()).or_default().push(s.symbol_type().clone());
        }
        let mut gates: Vec<(String, usize, usize)> = table.gates().map(|(n, _, p, q)| (n.to_string(), p, q)).collect();
        gates.sort();
        let kinds: Vec<String> = res.semantic_errors().iter().map(|e| format!("{:?}", e.kind())).collect();
        let rets: Vec<(String, Type)> = res
            .program()
            .stmts()
            .iter()
            .filter_map(|s| match s {
                asg::Stmt::DefStmt(d) => d.name().clone().ok().map(|id| (table[&id].name().to_string(), d.return_type().clone())),
                _ => None,
            })
            .collect();
        Some((types, gates, kinds, rets))
    });
    let (types, gates, kinds, rets) = match r {
        Err(_) => {
            ctx.count("skipped_analysis_panics", 1);
            return;
        }
        Ok(None) => {
            ctx.count("skipped_syntax_diagnostics", 1);
            return;
        }
        Ok(Some(x)) => x,
    };
    for (name, want) in &c.expect {
        match types.get(name).and_then(|v| v.first()) {
            None => fail(ctx, "symbol missing".into(), format!("no symbol named `{}` is referenced by the graph", name)),
            Some(got) => {
                ctx.outcome(fnv_str(&format!("{:?}", got)));
                if unconst_ret(got) != unconst_ret(want) || (!matches!(got, Type::SubroutineDef(_)) && got != want) {
                    fail(ctx, format!("{:?} recorded for {:?}", got.base_type(), want.base_type()), format!("`{}` is recorded as {:?} but was declared {:?}", name, got, want));
                }
            }
        }
    }
    if !c.expect.is_empty() && !kinds.is_empty() {
        // a well-formed width must not be diagnosed (typing of the initializer is C08's business)
        let bad: Vec<&String> = kinds.iter().filter(|k| k.contains("Designator") || k.contains("ConstInteger")).collect();
        if !bad.is_empty() {
            fail(ctx, format!("spurious {}", bad[0]), format!("the declaration is well formed but {:?} is reported", bad));
        }
    }
    if let Some((name, wrong)) = &c.bad_width {
        let diagnosed = kinds.iter().any(|k| k.contains("Designator") || k.contains("ConstInteger") || k.contains("UndefVar") || k.contains("IncompatibleTypes"));
        let ndiag = kinds.iter().filter(|k| k.contains("Designator") || k.contains("ConstInteger") || k.contains("UndefVar") || k.contains("IncompatibleTypes")).count();
        if c.tag.starts_with("twice-bad") && diagnosed && ndiag < 2 {
            fail(ctx, "second designator not diagnosed".into(), format!("two declarations use the unusable designator, {} diagnostic(s) about it are reported (diagnostics: {:?})", ndiag, kinds));
        }
        if !diagnosed {
            fail(ctx, "designator not diagnosed".into(), format!("the width is not a representable constant integer, yet no diagnostic about it is reported (diagnostics: {:?})", kinds));
        }
        if let Some(got) = types.get(name).and_then(|v| v.first()) {
            ctx.outcome(fnv_str(&format!("{:?}", got)));
            if let Some(w) = width_of(got) {
                if wrong.contains(&w) && !diagnosed {
                    fail(ctx, "width silently replaced".into(), format!("`{}` is recorded as {:?}", name, got));
                }
                if wrong.contains(&w) && w != 0 && c.tag.starts_with("toolarge") {
                    fail(ctx, "width truncated".into(), format!("`{}` is recorded as {:?}: the width was replaced by its value modulo 2^32", name, got));
                }
            }
        }
    }
    if let Some(want) = &c.gates {
        if gates != *want {
            let extra: Vec<_> = gates.iter().filter(|g| !want.contains(g)).collect();
            let missing: Vec<_> = want.iter().filter(|g| !gates.contains(g)).collect();
            fail(ctx, "gate listing".into(), format!("gates() differs: unexpected {:?}, missing {:?}", extra, missing));
        }
    }
    if let Some((name, want)) = &c.def_ret {
        match rets.iter().find(|(n, _)| n == name) {
            Some((_, got)) if unconst(got) == unconst(want) => {}
            other => fail(ctx, "DefStmt::return_type".into(), format!("return type in the graph {:?}, declared {:?}", other.map(|x| &x.1), want)),
        }
    }
    if c.nontrivial {
        ctx.mark_nontrivial(fnv_str(&c.text));
    }
}

pub struct Decls {
    pub family: &'static str,
    pub cases: Vec<Case>,
}

impl Space for Decls {
    fn name(&self) -> String {
        format!("DECL/{}", self.family)
    }
    fn describe(&self) -> Value {
        json!({"space": "DECL", "family": self.family, "programs": self.cases.len()})
    }
    fn num_blocks(&self) -> u64 {
        ((self.cases.len() + 255) / 256).max(1) as u64
    }
    fn run_block(&self, block: u64, ctx: &mut Ctx) {
        let lo = block as usize * 256;
        let hi = (lo + 256).min(self.cases.len());
        for c in &self.cases[lo.min(hi)..hi] {
            check(c, ctx);
        }
    }
    fn replay(&self, case: &Value, ctx: &mut Ctx) {
        let text = case["text"].as_str().unwrap_or("");
        if let Some(c) = self.cases.iter().find(|c| c.text == text) {
            check(c, ctx);
        }
    }
}

pub fn spaces(tier: Tier, _seed: u64) -> Vec<Box<dyn Space>> {
    let ws = widths(tier.is_thorough());
    let mut scalar = Vec::new();
    scalar_cases(&ws, &mut scalar);
    let mut cw = Vec::new();
    let cws: Vec<u32> = ws.iter().copied().filter(|w| *w <= 64 || *w % 97 == 0 || *w > 1024).collect();
    const_ident_cases(&cws, &mut cw);
    let mut bad = Vec::new();
    bad_cases(&mut bad);
    let mut shadowed = Vec::new();
    shadowed_const_cases(&mut shadowed);
    let mut hidden = Vec::new();
    hidden_const_cases(&mut hidden);
    let mut repeated = Vec::new();
    repeated_designator_cases(&mut repeated);
    let mut radix = Vec::new();
    radix_width_cases(&mut radix);
    let mut sig = Vec::new();
    signature_cases(&mut sig);
    vec![
        Box::new(Decls { family: "scalar", cases: scalar }),
        Box::new(Decls { family: "const-width", cases: cw }),
        Box::new(Decls { family: "bad-width", cases: bad }),
        Box::new(Decls { family: "shadowed-const", cases: shadowed }),
        Box::new(Decls { family: "hidden-const", cases: hidden }),
        Box::new(Decls { family: "repeated-designator", cases: repeated }),
        Box::new(Decls { family: "radix-width", cases: radix }),
        Box::new(Decls { family: "signatures", cases: sig }),
    ]
}
