#!/usr/bin/env bash
# developer aid (not a registered check):
#   tools/run_seeded.sh confirm <seed-dir>         confirm a seeded change in a scratch worktree:
#                                                   compiles, the 228 tests pass, the demo fails with
#                                                   it and passes without it
#   tools/run_seeded.sh detect  <seed-dir> [tier] [ids...]
#                                                   apply it to /repo, run the checks of the property
#                                                   (or the given ids), undo it straight afterwards
# A seed directory holds patch.diff, a demonstration (demo_test.rs) and meta.json.
set -u
cd "$(dirname "$0")/.."
cmd="$1"; seed="$(realpath "$2")"; shift 2
patch="$seed/patch.diff"
[ -f "$patch" ] || { echo "no patch.diff in $seed"; exit 2; }

case "$cmd" in
confirm)
  wt=/tmp/confirm-wt-$$
  git -C /repo worktree add -q "$wt" HEAD || exit 2
  trap 'git -C /repo worktree remove --force "$wt" >/dev/null 2>&1' EXIT
  cd "$wt"
  git apply "$patch" || { echo "CONFIRM: patch does not apply"; exit 1; }
  if ! cargo build --workspace --offline >/dev/null 2>&1; then echo "CONFIRM: does not compile"; exit 1; fi
  out=$(cargo nextest run --workspace --no-fail-fast --offline 2>&1 | grep -E 'Summary' | tail -1)
  echo "CONFIRM: test suite with the change: $out"
  case "$out" in *"228 passed"*) ;; *) echo "CONFIRM: the existing tests do not all pass"; exit 1;; esac
  demo=$(ls "$seed"/demo*.rs 2>/dev/null | head -1)
  if [ -n "$demo" ]; then
    crate=oq3_semantics
    grep -q 'oq3_semantics' "$demo" || grep -q 'parse_source' "$demo" || crate=oq3_semantics
    cp "$demo" crates/$crate/tests/zz_seed_demo.rs
    feat=""; grep -q verif_ "$demo" && feat="--features oq3_verif"
    if timeout 300 cargo test -p $crate $feat --test zz_seed_demo --offline >/tmp/confirm-$$.log 2>&1; then
      echo "CONFIRM: demo PASSES with the change (it should fail)"; tail -5 /tmp/confirm-$$.log; rm -f /tmp/confirm-$$.log; exit 1
    fi
    echo "CONFIRM: demo fails with the change: $(grep -E 'test result|panicked|timed out' /tmp/confirm-$$.log | head -2 | tr '\n' ' ')"
    git apply -R "$patch"
    if ! timeout 300 cargo test -p $crate $feat --test zz_seed_demo --offline >/tmp/confirm-$$.log 2>&1; then
      echo "CONFIRM: demo FAILS without the change (it should pass)"; tail -15 /tmp/confirm-$$.log; rm -f /tmp/confirm-$$.log; exit 1
    fi
    echo "CONFIRM: demo passes without the change"
    rm -f /tmp/confirm-$$.log
  else
    echo "CONFIRM: no demo_*.rs found"; exit 1
  fi
  echo "CONFIRM: ok"
  ;;
detect)
  tier="${1:-quick}"; [ $# -gt 0 ] && shift
  ids="$*"
  [ -n "$ids" ] || ids=$(python3 -c "import json,sys;m=json.load(open('$seed/meta.json'));print(' '.join(m.get('checks') or [m['property']]))" 2>/dev/null)
  [ -n "$ids" ] || { echo "no property id"; exit 2; }
  if [ -n "$(git -C /repo status --porcelain --untracked-files=no)" ]; then echo "/repo is not clean"; exit 2; fi
  git -C /repo apply "$patch" || { echo "DETECT: patch does not apply to /repo"; exit 2; }
  trap 'git -C /repo checkout -- . ' EXIT
  for id in $ids; do
    start=$(date +%s)
    out=$(./check "$id" "$tier" 2>&1); rc=$?
    echo "DETECT $id $tier rc=$rc $(($(date +%s)-start))s: $(echo "$out" | grep -E '^VIOLATION' | head -1)"
    echo "$out" | grep -E '^  (rule|witness|detail)=' | head -3 | cut -c1-300
    echo "$out" | grep -E '^machinery' | head -3
  done
  ;;
*) echo "usage: run_seeded.sh confirm|detect <seed-dir> ..."; exit 2;;
esac
