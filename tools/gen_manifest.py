#!/usr/bin/env python3
"""Regenerate /verif/MANIFEST.json from the table below (kept next to the checks so that the
manifest, the registry in harness/src/props/mod.rs and DESIGN.md stay in step)."""
import json, os, subprocess, sys

ROOT = os.path.dirname(os.path.dirname(os.path.abspath(__file__)))

# id -> (category, technique, level text, level note, design ref)
CHECKS = {
 "C01": ("exploration",
         "bounded exhaustive enumeration of strings and token sequences over the full token alphabet through both parse entry points, with a parser progress monitor and process-level death/stall pinpointing",
         "Every string of <= 5 (thorough 6) atoms over eleven 14-symbol alphabets of critical atoms, every sequence of <= 3 (thorough 4) tokens over the token alphabet derived from SyntaxKind at run time (92 lexer-producible kinds plus text-dependent and malformed variants; rendered with blanks, tightly, and with an empty comment between all lexemes), thorough also every 5-token sequence at parser level (6.5e9), every model leaf statement under single-token faults (each token deleted, duplicated, replaced by each of 11 offenders (one of them a character the lexer does not know)), a long program cut after every token count, and 46 scaling families up to nesting 256 / 64 KiB are pushed through SourceFile::parse and SourceFile::parse_check_lex under catch_unwind in worker processes. A panic, failed assertion, overflow (strict profile), a parser loop that stops consuming (hook), a dead or stalled worker, or work above a frozen constant per token is a violation. Exhaustive within the bounds, so every grammar loop meets every token kind as the offending token by construction.",
         "Bounds: see evidence (lengths, nesting 256, 64 KiB). Strict build profile (debug assertions, overflow checks). Hook oq3_verif counts look-aheads/events. Four genuine defects found this way were repaired by fix: commits (known_findings.jsonl, fixed entries).",
         "DESIGN.md section 7, C01"),
 "C02": ("exploration",
         "bounded exhaustive enumeration of inputs; structural invariant of the rowan tree checked on every node",
         "On every input of the C01 text-level spaces (and the scaling families) both entry points' trees are walked completely: root kind and range, leaves spelling the input byte for byte, every node's children tiling its range without gap or overlap, empty nodes having empty ranges.",
         "Inputs on which parsing does not return are C01's and are skipped (counted). rowan's range arithmetic is trusted.",
         "DESIGN.md section 7, C02"),
 "C03": ("exploration",
         "bounded exhaustive enumeration of syntactically clean programs (token soup, wider grammar in every context, single semantic faults over all sites) through the full analysis in isolated worker processes",
         "Every token sequence of <= 3 (thorough 4: 7e7) tokens that the implementation parses without diagnostics, ~460 statements of the wider grammar (all operators, literal kinds, blocks, box, arrays, extern, defcal, cal, old-style declarations, hardware qubits, version statements, ill-typed and ill-scoped uses) alone, inside every one of 17 contexts (thorough: two levels) and in every ordered pair after the prelude, every leaf template and every grid leaf (statement form x operand form, qualifier x type, assignment operator x target) in every context with and without its declarations, and single semantic faults exhaustive over sites (each prelude declaration deleted, duplicated, retyped to each of 10 types, turned into a qubit, made const; gate and subroutine calls with wrong arity under each modifier) are analysed; a panic, a dead or stalled worker, or a scope stack not back at the global scope is a violation.",
         "Which programs are syntactically clean is decided by the implementation. The panic sites of unsupported constructs are recorded as known findings keyed by panic message + source text of the panicking line + trigger token (DESIGN.md 10.4); those repaired by fix: commits are in 10.3. Hook oq3_verif gives the scope depth.",
         "DESIGN.md section 7, C03"),
 "C04": ("exploration",
         "bounded exhaustive enumeration of derivations of a reference grammar, each under every printing, through both parse entry points",
         "All spines of <= 2 (thorough 3, and 4-5 over the reduced context set) compound-statement contexts (17 contexts: each body of if/else/while/for/case/default/gate/def as block or single statement) around ~65 leaf statement templates and (to depth 1, thorough 2) around 268 grid leaves (17 quantum statement forms x 8 operand forms, 6 declaration qualifiers x 16 types, 12 assignment operators x 3 target forms), all sequences of 2 (thorough 3) statements, all two- and three-operator expression trees over 19 binary and 3 unary operators in 12 expression positions, printed with minimal, full and redundant parentheses and 10 uniform separator flavours (among them a non-ASCII line comment, CR LF with vertical tab and form feed, a block comment ending in **/); plus 54 statement texts of constructs outside the model grammar that the parser supports (arrays, extern, calibration, old-style registers, durationof, alias concatenation, built-in calls) in 5 positions x 6 separator flavours; any diagnostic of SourceFile::parse or parse_check_lex is a violation. Every context x construct pair is present by construction.",
         "The model grammar is listed in DESIGN.md 4.4; arrow measurement and box statements, which the parser does not accept, are outside the claim. Genuine rejections are recorded as known findings keyed by message + construct (DESIGN.md 10.4); repaired ones are in 10.3.",
         "DESIGN.md section 7, C04"),
 "C05": ("exploration",
         "bounded exhaustive enumeration of model programs; S-expression read through the public typed accessors compared with the model's derivation",
         "On the program spaces of C04 (all 361 ordered operator pairs in both groupings, all three-operator trees, unary x binary x postfix mixes, every statement template in every block/non-block body combination) the S-expression extracted from the typed AST only through public accessors (BinExpr::lhs/rhs/op_kind, IfStmt::true_body/false_body, ForStmt, Gate::angle_params/qubit_params, Def, RangeExpr::start_step_stop, modifiers, arguments, operands ...) must equal the model's, role by role. The precedence table is data in the harness and self-tested.",
         "Programs the parser rejects are skipped (C04's). Two defects (precedence table, if/else accessors) were repaired by fix: commits; two are recorded as known findings.",
         "DESIGN.md section 7, C05"),
 "C06": ("exploration",
         "bounded exhaustive enumeration of supported model programs; node-by-node comparison of the graph skeleton (through public accessors and the final symbol table) with the skeleton predicted from the model",
         "Every supported leaf template inside spines of <= 3 (thorough 4-5 over the reduced context set) contexts and every supported grid leaf inside <= 1 (thorough 2) contexts after its declarations, all sequences of <= 2 (thorough 3) supported statements with annotation lines, all two-operator trees and unary/postfix mixes over the 13 supported binary operators in 6 expression positions: the graph's statement kinds, nesting, order, branch/body/case/default roles, operand, argument, qubit, index and modifier order, operator identity, literal class and value, symbol names, annotations and pragma text must equal the model's. For 'includes expanded in place' the file-system configurations of C18 with one directory and three files run under this check too (graph with real included files, annotated and nested includes, equals the graph of the textually inlined program).",
         "Casts are transparent and declared types are not compared. Programs not analysed (syntax diagnostics, analyser panics) are skipped and counted. Three findings recorded (`**` stored as `++`, `let` in bodies, cast-initial statement).",
         "DESIGN.md section 7, C06"),
 "C07": ("model_checking",
         "exhaustive exploration of scope/declaration/use operation histories rendered as programs and executed by the real analyser, compared reference by reference with a reference scope stack",
         "All well-formed histories of <= 5 (thorough 6) operations over {declare int/const/qubit x, use x, assign x, gate-call x, open if/else/while/for x/case/default/gate(x)/def(x), close} for four two-name pools (user names; pi and the library gate h after include; the built-in U; non-ASCII names) are rendered as programs; the graph is walked in source order and every symbol reference is compared with the reference scope machine: resolved iff visible, same symbol iff same declaration, symbol name equals the identifier, unresolved uses marked MissingBinding, typed Undefined and reported exactly once on the identifier, duplicates marked AlreadyBound and reported exactly once with the name, scope stack back at depth 1. Reports reference states, transitions and traces; every trace runs on the implementation.",
         "Readings where the statement is silent are listed in the evidence assumptions. Hook oq3_verif for the depth.",
         "DESIGN.md section 7, C07"),
 "C08": ("exploration",
         "exhaustive target x value-form decision table for declarations and assignments; typing rules checked on every expression node of every resulting graph",
         "Every scalar type spelling of the tier (26 quick, 34 thorough; const and non-const targets) x every value form (11 literal forms, variable / const variable / explicit cast / subroutine call of every type, measurement of qubit and register, arithmetic over every ordered pair of numeric operand types x 10 operators (+ - * / % << >> & | ^), unary minus) for declarations with initializer and for assignments. On every expression node: identifier type = symbol type, literal type = its class marked const, cast type = target, measurement type = bit shape of the operand, arithmetic node type = the library's common type with both operands of that type or cast to it. On the statement: value type equals the target up to const-ness (directly or via a cast to exactly the target) or a type diagnostic sits on it; conversions in the must-diagnose class (kind down the tower, negative literal to unsigned, to/from bit, bool, duration, angle of another kind, narrowing of a non-constant) carry a diagnostic.",
         "Whether the common type is a correct join is C20. Over-diagnosis is not a violation. Two defects were repaired by fix: commits; one (integer imaginary literal typed int) is recorded.",
         "DESIGN.md section 7, C08"),
 "C09": ("exploration",
         "exhaustive enumeration of a declaration-form x type x width x scope table; recorded symbol types compared with the declared ones computed by the harness",
         "Plain, const, input, output, loop-variable and subroutine-parameter declarations of 12 scalar type spellings with every width of the tier's set (1..1024, thorough 1..4096, and 2^k, 2^k+-1 up to 2^32-1), literal and through const identifiers of 6 integer types, in 8 scope kinds; qubit registers; out-of-range, negative, float, boolean, non-constant, input, loop-variable and undeclared designators (a diagnostic is required and the width must not be another number); every gate signature 0-4 x 1-4 with parameter and qubit types and the gates() listing with and without the standard library; every subroutine signature 0-4 parameters x 13 return types with DefStmt::return_type.",
         "Programs on which the analyser panics are skipped and counted (C03). Const-ness of a recorded return type is not compared. Three defects (truncated width, silent non-constant width, const of the literal's own type as width) were repaired by fix: commits.",
         "DESIGN.md section 7, C09"),
 "C10": ("exploration",
         "exhaustive enumeration of structured literal spelling sets; value in the graph and in the AST accessors compared with the value computed by the harness's own spelling generator",
         "Every integer 0..4096, every 2^k and 2^k+-1 (k <= 128) and 64 digit patterns in 4 radices, both prefix cases, both hex digit cases and all legal underscore placements; 5 mantissas x 8 fractions x 11 exponents of float spellings with underscores and leading-dot forms; all bit strings up to 12 bits and structured ones up to 256 bits, both quote flavours, with underscores; every unit (dt ns us µs ms s) and `im` glued, spaced and tabbed; booleans; each as expression statement, under unary minus (glued/spaced) and as initializer. The graph literal (class, value, sign, unit, bit count as width) and IntNumber/FloatNumber/BitString::value must equal the expected value.",
         "Integers are covered on the stated set only. Expected doubles are Rust's parse::<f64> of the underscore-free spelling. One defect (float `1.e3`) was repaired by a fix: commit.",
         "DESIGN.md section 7, C10"),
 "C11": ("exploration",
         "bounded exhaustive splicing of malformed lexemes at every position of every short token sequence; gating relations checked on every token sequence through the full pipeline",
         "About 600 malformed spellings generated from the reference definition of each class (unterminated strings and bit strings: quote + every body of <= 2 atoms over 9 atoms incl. escapes; unterminated nested block comments; base prefixes without digits; 7 mantissas x e/E x sign x underscores without exponent digits; malformed version headers; identifiers with a forbidden character) are spliced at every gap of every sequence of <= 2 tokens over the full token alphabet, and the spellings one atom deeper (thorough two) alone and after one token; the lexical diagnostic must sit on the spliced lexeme. Every sequence of <= 3 tokens (with malformed variants) goes through parse_check_lex (tree iff no lexical diagnostic; diagnostics all lexical or all syntactic) and through parse_source_string (any_syntax_errors iff a syntax diagnostic; then empty program and no semantic diagnostics; otherwise analysis ran).",
         "Pipeline cases on which the analyser panics are skipped here and counted (they are C03's). Includes of real files with faults are exercised by C18.",
         "DESIGN.md section 7, C11"),
 "C12": ("exploration",
         "bounded exhaustive enumeration of inputs; span validity and error-node/diagnostic correspondence on every one",
         "On every input of the C01 text-level spaces (with non-ASCII lexemes) every diagnostic of both entry points must have start <= end <= len on character boundaries, and a tree containing an ERROR node or token must come with at least one diagnostic. Semantic diagnostics: on every scope history of C07's user and Unicode pools, every rule site of C13 and every single-fault program (each with a non-ASCII comment and non-ASCII declarations in front) every semantic diagnostic's range must be in bounds, on character boundaries and equal to the range of a node of the file's tree.",
         "Programs on which the analyser panics are skipped and counted (C03).",
         "DESIGN.md section 7, C12"),
 "C13": ("exploration",
         "exhaustive rule x site x arity decision table and all pairs of rule representatives; exact multiset of rule diagnostics per site",
         "Every gate of the standard library, U and 20 user gates called with 0..5 parameters x 1..5 operands unmodified, inv@ and pow(2)@ (all 30 x 3 arity combinations per gate); calls of non-gates and undeclared names; 14 non-quantum symbols as gate / reset / measure / barrier operand, plain and indexed; 12 binary operators with a qubit, register or hardware qubit on either or both sides; subroutines with 0-4 parameters called with 0..5 arguments in 3 positions; assignment to const and non-const symbols; qubit, gate and subroutine declarations in 9 scope kinds; return at global scope and in subroutines; delay designators; and all 256 ordered pairs of 16 rule representatives. On each site the multiset of rule diagnostics must be exactly the predicted one, located inside the site, with no rule diagnostic elsewhere.",
         "ctrl/negctrl arity is not judged. Sites are type-correct otherwise, so IncompatibleTypesError can only come from the operand/operator rules.",
         "DESIGN.md section 7, C13"),
 "C14": ("exploration",
         "bounded exhaustive enumeration of input strings over critical alphabets, invariant oracle on every one",
         "Every string of at most 5 (thorough: 6-7) symbols over eleven 14-symbol alphabets of lexically critical atoms is lexed by the real lexer and by LexedStr; on each the partition invariants (non-zero lengths, character boundaries, suffix offsets, lengths summing to the input, strictly increasing offsets, slicing never fails, two runs equal) are checked. Exhaustive within the bound, so every lexer shortcut reachable with <= 7 critical atoms is hit by construction rather than by luck.",
         "Nothing is claimed for strings beyond the bound or characters outside the alphabets. Trusted: rustc, the harness.",
         "DESIGN.md section 7, C14"),
 "C15": ("exploration",
         "exhaustive enumeration of all ordered pairs and triples of lexeme instances times separator flavours against a hand-written expected-kind table",
         "About 190 lexeme instances (every keyword and type name, punctuation, integer/float spellings, number+unit, identifiers incl. Unicode and keyword-prefixed, hardware qubits, bit strings, strings, comments, pragma/annotation lines, version header) in all ordered triples, and those plus every number spelling x every unit (glued and with a blank; ~520 instances) in all ordered pairs x 12 separators and alone with leading/trailing trivia; the non-trivia token table must be exactly the expected (kind, text) list with no lexical error, hence identical across separators.",
         "Expected kinds are a hand-written table (keywords by naming convention). must_separate is conservative. Bare OPENQASM / pragma are excluded (header / line forms only). One finding recorded (upper-case base prefix glued to a unit).",
         "DESIGN.md section 7, C15"),
 "C16": ("exploration",
         "exhaustive enumeration of all sequences of error-free statements in every block context; differential comparison of the concatenation's statement list with the parts' own parses",
         "A pool of ~115 statement texts (every leaf template, compounds with block and single-statement bodies, anonymous blocks, statements starting with every kind of expression-start token, empty statement, pragma/annotation lines, definitions); those that parse cleanly alone (decided by the implementation) are concatenated in all sequences of length <= 3 in each of 9 contexts (file, if, else, while, for, case, default, gate, def; thorough: length 4 at top level), length-2 sequences joined by four comment flavours in four contexts, and N copies of each followed by each of 6 victim statements for N around every power of two up to 1024 (thorough 4096) in three contexts; the concatenation must have no diagnostic and its statement list must equal the concatenation of the parts' lists by kind, token texts and preorder kind sequence.",
         "Differential oracle, no expected value written by hand. One defect (assignment swallowing the next statement) was repaired by a fix: commit; four are recorded (empty statement after an item; `let` in blocks; anonymous block ending a block; semicolon absorbed by a block statement).",
         "DESIGN.md section 7, C16"),
 "C17": ("exploration",
         "exhaustive enumeration of relational variants (layouts within a gap-deviation bound, renamings, all split points, repeated analysis) of every generated program; differential equality with no hand-written expected value",
         "Every leaf template alone and inside each of 17 contexts after its declarations, every leaf behind one or two annotation lines, supported grid leaves, statement sequences (with annotation lines) and (thorough) programs with one injected semantic fault are analysed under: the 10 uniform layouts and every layout deviating from the default in <= 1 gap (thorough <= 2 gaps for short statements) of the statements after the prelude with each of 9 separator flavours (all gaps for the first program); 4 fixed injective renamings of all user identifiers (ASCII, leading underscore, Unicode, keyword-prefixed) plus rotations, reversal and every adjacent swap of the identifiers among themselves; every split at a top-level statement boundary (also directly after annotation lines); and twice unchanged. Graph equality (PartialEq), symbol table equality up to the renaming, equal diagnostic kinds (up to the renaming), prefix property for statements / symbols / diagnostics, and full equality including positions for the repeated run.",
         "Layouts beyond the deviation bound and renamings beyond the listed families are not covered. Programs not analysed (rejected or panicking) are skipped and counted.",
         "DESIGN.md section 7, C17"),
 "C18": ("exploration",
         "exhaustive enumeration of file-system arrangements x search lists x resolution modes x entry points x main programs against a reference resolver and the analysis of the textually inlined program",
         "Real directory trees are built under /verif/.work: every assignment of the include files to subsets of 2 (thorough 3) search directories with directory-specific contents (so the directory picked is observable in the graph), file b in 5 flavours (own symbol, uses a's symbol, includes a, syntax fault, lexical fault), every search list that is a permutation of a subset of the directories, given explicitly (with QASM3_PATH set to the reverse order, which must be ignored), through QASM3_PATH only, or not at all, both entry points (string and file), and 25 main programs (include first / between declarations / used afterwards / name clash / two files in both orders / twice / below global scope in if and def / missing / with stdgates / missing in the middle / absolute path / nested / invalid escape / no path / the standard library between two real includes / annotation lines before an include in the middle and at the end), with and without a decoy file named stdgates.inc (benign or faulty) in every directory. Oracles: graph and symbols equal those of the inlined text, diagnostics equal as multiset plus exactly the predicted FileNotFound / IncludeNotInGlobalScope ones, the list tagged with each resolved canonical path holds the diagnostics of that file's own text, faults in the main text or in a file that is actually read gate analysis, no panic.",
         "Include cycles are not generated (outside the statement). Chains of nested includes of depth 1-20 (thorough 70) form a second space (F-CHAIN). The environment variable is set and cleared around each configuration inside single-threaded worker processes.",
         "DESIGN.md section 7, C18"),
 "C19": ("model_checking",
         "explicit-state exploration of all operation histories on the real SymbolTable, lock-step comparison with a reference stack of maps",
         "All histories of length <= 7 (thorough: <= 9, 4.8e8) over the nine operations of the statement, plus a second alphabet (lookup-or-bind, gate and hardware-qubit bindings) and all short histories from 16 systematic other start states (deep stacks, large global and large non-global scopes, scopes that were filled and exited, tables built through Default), are executed on the real SymbolTable (cloned at branch points); after every operation the result and the full observation vector (look-ups, scope size, depth, every id ever issued, gate and hardware-qubit listings) are compared with the reference model. Reports reference states, transitions and traces executed; every trace runs on the implementation.",
         "Hook oq3_verif gives access to enter_scope and the scope depth. Histories beyond the bound are covered only as suffixes of deep/large start states.",
         "DESIGN.md section 7, C19"),
 "C20": ("exploration",
         "exhaustive enumeration of all ordered pairs and triples of a finite type abstraction against the numeric-tower order written as data",
         "All ordered pairs and all triples of the finite abstraction of Type (all 27 constructors, seven widths, const flags, array shapes) are fed to promote_types, promote_types_not_equal, can_cast_literal, equal_base_type and implicit_cast_type (11 operators); each result is checked against the join laws of the statement (symmetry up to const, idempotence, upper bound in kind and width, const only if both, 'no common type' iff no bound, associativity, literal castability). Exhaustive over the abstraction; the reference order is self-checked for reflexivity, antisymmetry, transitivity and has_bound against brute force before use.",
         "Widths outside the seven representatives are not covered. Six classes of genuine violations are recorded in known_findings.jsonl (keyed by rule + constructor pair); anything else is reported.",
         "DESIGN.md section 7, C20"),
}

def main():
    props = [json.loads(l) for l in open(os.path.join(ROOT, "properties.jsonl"))]
    ids = [p["id"] for p in props]
    checks = []
    for pid in ids:
        if pid not in CHECKS:
            continue
        cat, tech, text, note, ref = CHECKS[pid]
        checks.append({
            "property_id": pid,
            "quick_cmd": f"./check {pid} quick",
            "thorough_cmd": f"./check {pid} thorough",
            "evidence_file": f"/verif/evidence/{pid}.json",
            "replay_cmd_template": "./check --replay {path}",
            "engine": "oq3verif",
            "level_claimed": {"category": cat, "text": text, "design_ref": ref},
            "level_note": note,
            "technique": tech,
        })
    na = [{"property_id": pid, "reason": "check not built yet in this round (planned, see DESIGN.md section 8.4); not claimed until it exists"}
          for pid in ids if pid not in CHECKS]
    hooks_commits = subprocess.run(["git", "-C", "/repo", "log", "--format=%H %s", "--grep=oq3_verif"],
                                   capture_output=True, text=True).stdout.strip().splitlines()
    manifest = {
        "version": 1,
        "setup_cmd": "./check --build",
        "hooks": {
            "guard": "cargo feature oq3_verif (crates oq3_parser and oq3_semantics)",
            "enable": "the harness crate /verif/harness depends on /repo/crates/oq3_parser and /repo/crates/oq3_semantics by path with features=[\"oq3_verif\"]; every check runs `cargo build --release --offline` in /verif/harness first, which recompiles /repo's working tree",
            "baseline_off_cmd": "cd /repo && cargo nextest run --workspace --no-fail-fast --offline",
            "source_commits": [l.split()[0] for l in hooks_commits if "verification hook" in l],
            "add_only": True,
        },
        "engines": [{
            "name": "oq3verif",
            "path": "/verif/harness",
            "serves_properties": [c["property_id"] for c in checks],
            "kind_free_text": "Rust driver/worker harness: bounded exhaustive enumeration of inputs, programs, operation histories and decision tables against the real crates; worker subprocesses with death/stall pinpointing; known-finding filter; replay files",
        }],
        "checks": checks,
        "not_applicable": na,
        "notes": "Every check prints VIOLATION property=<id> replay=<path> and exits 1 on an unlisted violation, prints KNOWN-FINDING lines and exits 0 for findings listed in /verif/known_findings.jsonl, and exits 2 on a machinery error (never a verdict). VERIF_SEED only rotates representatives; it never selects which cases are visited.",
    }
    json.dump(manifest, open(os.path.join(ROOT, "MANIFEST.json"), "w"), indent=1)
    print("wrote MANIFEST.json with", len(checks), "checks;", len(na), "not claimed")

if __name__ == "__main__":
    main()
