#!/usr/bin/env python3
"""Write the prompts for one batch of seeding sub-agents (developer aid).

  tools/gen_seed_prompts.py <batch-letter> <k>     e.g.  O 14
writes /tmp/prompt-<letter><i>.txt for seven groups of properties; each agent works in the
scratch worktree /tmp/wt-<letter><i> and writes /tmp/seed-<ID>-<k>/.  The prompt holds the
property files and, per property, the triggers of the seeds kept so far (so that a new seed
differs in mechanism), never anything of the checks.
"""
import json, os, sys

ROOT = os.path.dirname(os.path.dirname(os.path.abspath(__file__)))
GROUPS = [["C01", "C02", "C03"], ["C04", "C05", "C06"], ["C07", "C08", "C09"], ["C10", "C11", "C12"], ["C13", "C14", "C15"], ["C16", "C17", "C18"], ["C19", "C20"]]
PRE = {
    "C03": "pre-existing panics on unsupported constructs (comparison operators <, logical && ||, ! and ~, compound assignment, box, arrays, anonymous blocks, gphase() without argument, malformed integer literals) — introduce a NEW violation in a path that works today",
    "C04": "pre-existing rejections: plain assignment with a binary value; gate g() q {}; ctrl @ gphase; cast-initial expression statements; **=; box; arrow measurement; a comment directly after the version number",
    "C05": "pre-existing: let statements in blocks; cast-initial expression statements; RangeExpr::step()/stop() of the generated accessors",
    "C06": "pre-existing: ** stored as concatenation; annotations inside bodies attach to the enclosing statement; let in blocks",
    "C08": "pre-existing: 2im typed int",
    "C11": "pre-existing: upper-case base prefixes 0B/0X/0O without digits",
    "C15": "pre-existing: upper-case base prefix glued to a unit",
    "C16": "pre-existing: let statements; empty statement after an item; anonymous block as last statement of a block; semicolon absorbed after a block",
    "C20": "pre-existing: result const when one operand const; cross-kind width; int with uint; complex widths; division with complex",
}


def main():
    letter, k = sys.argv[1], sys.argv[2]
    tpl = open(os.path.join(ROOT, "tools", "seed_prompt_template.txt")).read()
    used = {}
    for name in sorted(os.listdir(os.path.join(ROOT, "seeded"))):
        m = json.load(open(os.path.join(ROOT, "seeded", name, "meta.json")))
        used.setdefault(m["property"], []).append(m["needs_to_manifest"][:60])
    for i, g in enumerate(GROUPS, 1):
        avoid = "Already used elsewhere (do NOT reuse these triggers or close variants): "
        for p in g:
            avoid += "[%s] %s. " % (p, "; ".join(used.get(p, [])))
            if p in PRE:
                avoid += "[%s %s] " % (p, PRE[p])
        avoid += "This is a late round: MANY triggers have been used already (see the list). Read the anchored code closely and find a slip that is genuinely different in mechanism and trigger from every entry of the list; prefer code none of them touches (other functions, other crates, other entry points of the same property). Quality over speed: a trigger that merely re-spells a listed one is useless."
        s = tpl.replace("@WT@", "/tmp/wt-%s%d" % (letter, i))
        s = s.replace("@PROPFILES@", ", ".join("/tmp/prop-%s.txt" % p for p in g))
        s = s.replace("@AVOID@", avoid)
        s = s.replace("@OUTDIRS@", ", ".join("/tmp/seed-%s-%s/" % (p, k) for p in g))
        open("/tmp/prompt-%s%d.txt" % (letter, i), "w").write(s)
        print("/tmp/prompt-%s%d.txt" % (letter, i), len(s))


if __name__ == "__main__":
    main()
