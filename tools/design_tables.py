#!/usr/bin/env python3
"""Regenerate the measured tables of DESIGN.md section 10 from the machinery's own output.

  tools/design_tables.py            rewrite the blocks between <!-- BEGIN GENERATED x --> and
                                    <!-- END GENERATED x --> in DESIGN.md, x in
                                    {coverage, fixed, open, seeds}

Sources: evidence/<ID>.json (last quick run), evidence-thorough/<ID>.json (copies of the
evidence of the last thorough run, see tools/all.sh), known_findings.jsonl, seeded/*/meta.json.
"""
import json, os, re, sys

ROOT = os.path.dirname(os.path.dirname(os.path.abspath(__file__)))


def load(p):
    try:
        return json.load(open(p))
    except Exception:
        return None


def fmt(n):
    if n is None:
        return "–"
    if n >= 10_000_000:
        return "%.3g" % n
    return f"{n:,}".replace(",", " ")


def coverage():
    out = []
    for tier, d in (("quick", "evidence"), ("thorough", "evidence-thorough")):
        out.append(f"**{tier}** (from `{d}/`)\n")
        out.append("| id | spaces (evaluations each) | cases | non-trivial (distinct) | distinct outcomes | other distinct counts | known-finding hits | new | exhaustive | wall s |")
        out.append("|---|---|---|---|---|---|---|---|---|---|")
        for i in range(1, 21):
            pid = "C%02d" % i
            e = load(os.path.join(ROOT, d, pid + ".json"))
            if not e or e.get("tier") != tier:
                out.append(f"| {pid} | (no {tier} evidence recorded) | | | | | | | | |")
                continue
            c = e["coverage"]
            spaces = "; ".join("%s: %s" % (s["name"].split(" (")[0], fmt(s["evaluations"])) for s in c.get("spaces", []))
            dc = c.get("distinct_counts", {})
            other = ", ".join(f"{k} {fmt(v)}" for k, v in sorted(dc.items()) if k not in ("nontrivial", "outcomes"))
            cnt = c.get("counters", {})
            if cnt:
                other = (other + "; " if other else "") + ", ".join(f"{k} {fmt(v)}" for k, v in sorted(cnt.items()))
            hits = sum(k.get("hits", 0) for k in c.get("known_findings", []))
            out.append(
                f"| {pid} | {spaces} | {fmt(c['evaluations'])} | {fmt(c.get('nontrivial_cases'))} ({fmt(c['distinct_nontrivial'])}) | {fmt(c['distinct_outcomes'])} | {other} | {fmt(hits)} | {len(c.get('new_violations', []))} | {'yes' if c.get('exhaustive') else 'no (capped)'} | {e['wall_s']:.1f} |"
            )
        out.append("")
    return "\n".join(out)


def rules():
    out = []
    for i in range(1, 21):
        pid = "C%02d" % i
        e = load(os.path.join(ROOT, "evidence", pid + ".json"))
        if not e:
            continue
        out.append(f"* **{pid}** — {e['coverage'].get('rule', '')}")
        for a in e.get("assumptions", []):
            out.append(f"  * assumption: {a}")
    return "\n".join(out)


def findings():
    fixed, opened = [], []
    for line in open(os.path.join(ROOT, "known_findings.jsonl")):
        line = line.strip()
        if line.startswith("fixed:"):
            m = re.match(r"fixed:\s+property=(\S+)\s+(\S+)\s+(.*)", line)
            if m:
                fixed.append(m.groups())
        elif line.startswith("{"):
            opened.append(json.loads(line))
    f = ["| property | commit | what failed |", "|---|---|---|"]
    for p, c, w in fixed:
        f.append(f"| {p} | `{c}` | {w.replace('|', chr(92) + '|')} |")
    o = ["| property | rule | example | what fails |", "|---|---|---|---|"]
    for e in sorted(opened, key=lambda e: e["property"]):
        o.append("| %s | %s | `%s` | %s |" % (e["property"], e["rule"], e.get("example", "").replace("|", "\\|").replace("\n", "\\n"), e["what"].replace("|", "\\|")))
    return "\n".join(f), "\n".join(o), len(fixed), len(opened)


def seeds():
    d = os.path.join(ROOT, "seeded")
    out = ["| seed | property | needs to manifest | check (tier, s) | result | rule | witness |", "|---|---|---|---|---|---|---|"]
    n = caught = 0
    for name in sorted(os.listdir(d)):
        meta = load(os.path.join(d, name, "meta.json"))
        if not meta:
            continue
        n += 1
        primary = False
        for rec in meta.get("detection", []):
            ok = rec["exit"] == 1 and rec.get("violation_line")
            res = "VIOLATION" if ok else ("not caught" if rec["exit"] == 0 else "exit %d" % rec["exit"])
            if ok:
                primary = True
            w = rec.get("witness", "").replace("|", "\\|")
            if len(w) > 90:
                w = w[:45] + " … " + w[-40:]
            out.append(f"| {name} | {meta['property']} | {meta['needs_to_manifest']} | {rec['check']} ({rec['tier']}, {rec['seconds']}) | {res} | {rec.get('rule', '')} | {w} |")
        caught += 1 if primary else 0
    out.append("")
    out.append(f"{caught} of {n} kept seeds are caught by at least one of the checks listed for them in the tier shown.")
    return "\n".join(out)


def main():
    p = os.path.join(ROOT, "DESIGN.md")
    s = open(p).read()
    f, o, nf, no = findings()
    blocks = {"rules": rules(), "coverage": coverage(), "fixed": f, "open": o, "seeds": seeds()}
    for k, v in blocks.items():
        pat = re.compile(r"(<!-- BEGIN GENERATED %s -->\n).*?(<!-- END GENERATED %s -->)" % (k, k), re.S)
        if not pat.search(s):
            print("marker for", k, "not found")
            continue
        s = pat.sub(lambda m: m.group(1) + v + "\n" + m.group(2), s)
    open(p, "w").write(s)
    print(f"fixed={nf} open={no}")


if __name__ == "__main__":
    main()
