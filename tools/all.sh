#!/usr/bin/env bash
# developer aid: run every check of the manifest in the given tier, print one line each
cd "$(dirname "$0")/.."
TIER="${1:-quick}"
for id in $(python3 -c "import json;print(' '.join(c['property_id'] for c in json.load(open('MANIFEST.json'))['checks']))"); do
  if [ "$TIER" = thorough ] && [ "$id" = C01 ] && [ -z "${WITH_C01:-}" ]; then export VERIF_C01_LEN5=0; fi
  start=$(date +%s)
  out=$(./check "$id" "$TIER" 2>&1); rc=$?
  echo "rc=$rc $(($(date +%s)-start))s $(echo "$out" | grep -E "^$id $TIER:" | tail -1)"
  echo "$out" | grep -E '^(VIOLATION|machinery)' | head -5
  # keep a copy of the thorough evidence (evidence/ itself is rewritten by every run)
  if [ "$TIER" = thorough ] && [ $rc -eq 0 ]; then mkdir -p evidence-thorough; cp "evidence/$id.json" "evidence-thorough/$id.json"; fi
done
