#!/usr/bin/env bash
# developer aid: ./tools/triage.sh <ID> <tier> — group uncovered failures by rule/message/leaf
cd "$(dirname "$0")/.."
VERIF_MAX_FAILS=100000 VERIF_TRIAGE=1 ./check "$1" "${2:-quick}" 2>&1 | grep '^TRIAGE' > .work/triage.txt
python3 - <<'PY'
import re,collections
c=collections.Counter(); ex={}
for l in open('/verif/.work/triage.txt'):
    m=re.match(r'TRIAGE\s+(\d+) (\S+) \| (.*?)\s+e\.g\. `(.*?)`  (.*)',l)
    if not m: print('??',l.strip()[:200]); continue
    n,rule,locus,e,detail=m.groups()
    locus=re.sub(r'spine\[.*?\]/','',locus); locus=re.sub(r'seq\[.*?\]','seq',locus); locus=re.sub(r'prev=\S+ at=(?!empty|alias|END)\S+','prev=* at=*',locus); locus=re.sub(r'prev=\S+','prev=*',locus)
    k=(rule,locus); c[k]+=int(n)
    if k not in ex or len(e)<len(ex[k][0]): ex[k]=(e,detail)
for k,n in sorted(c.items()): print(n,k,'`'+ex[k][0][:110]+'`', ex[k][1][:160])
PY
