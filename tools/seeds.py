#!/usr/bin/env python3
"""Seeded property-breaking changes (developer aid, not a registered check).

  tools/seeds.py keep <tmp-seed-dir> <name> <property> <needs> [--checks C01,C14] [--skip-confirm]
      confirm the change in a scratch worktree (tools/run_seeded.sh confirm), copy patch.diff,
      the demonstration and the author's README to /verif/seeded/<name>/ and write meta.json
  tools/seeds.py detect [--tier quick] [name ...]
      for each kept seed: git -C /repo apply, run the checks named in meta.json, undo straight
      afterwards (git -C /repo checkout -- .); the outcome is recorded in meta.json
  tools/seeds.py table
      the detection record as a markdown table (DESIGN.md 10.5)
"""
import json, os, re, shutil, subprocess, sys, time

ROOT = os.path.dirname(os.path.dirname(os.path.abspath(__file__)))
SEEDED = os.path.join(ROOT, "seeded")


def sh(cmd, **kw):
    return subprocess.run(cmd, shell=True, text=True, stdout=subprocess.PIPE, stderr=subprocess.STDOUT, **kw)


def keep(argv):
    src, name, prop, needs = argv[:4]
    checks = [prop]
    skip = False
    rest = argv[4:]
    while rest:
        a = rest.pop(0)
        if a == "--checks":
            checks = rest.pop(0).split(",")
        elif a == "--skip-confirm":
            skip = True
    confirm = "confirmed earlier with tools/run_seeded.sh confirm (228 tests pass with the change; the demonstration fails with it and passes without it)"
    if not skip:
        r = sh(f"{ROOT}/tools/run_seeded.sh confirm {src}")
        lines = [l for l in r.stdout.splitlines() if l.startswith("CONFIRM")]
        print("\n".join(lines))
        if r.returncode != 0 or not lines or lines[-1] != "CONFIRM: ok":
            print(f"NOT KEPT: {name}")
            return 1
        confirm = lines
    dst = os.path.join(SEEDED, name)
    os.makedirs(dst, exist_ok=True)
    for f in os.listdir(src):
        if f == "patch.diff" or f.startswith("demo") or f == "README.md":
            shutil.copy(os.path.join(src, f), os.path.join(dst, f))
    meta = {
        "property": prop,
        "checks": checks,
        "needs_to_manifest": needs,
        "origin": "fresh sub-agent given only the property text and a scratch worktree of /repo",
        "base_commit": sh("git -C /repo rev-parse --short HEAD").stdout.strip(),
        "confirmed": confirm,
        "how_to_run": "tools/run_seeded.sh detect seeded/%s quick   (git -C /repo apply patch.diff; ./check <id> quick; git -C /repo checkout -- .)" % name,
        "detection": [],
    }
    old = os.path.join(dst, "meta.json")
    if os.path.exists(old):
        meta["detection"] = json.load(open(old)).get("detection", [])
    json.dump(meta, open(old, "w"), indent=1, ensure_ascii=False)
    print(f"kept {name}")
    return 0


def detect(argv):
    tier = "quick"
    names = []
    while argv:
        a = argv.pop(0)
        if a == "--tier":
            tier = argv.pop(0)
        else:
            names.append(a)
    if not names:
        names = sorted(os.listdir(SEEDED))
    # the evidence files describe the unchanged tree: keep them out of the seeded runs' way
    backup = os.path.join(ROOT, ".work", "evidence-before-seeds")
    shutil.rmtree(backup, ignore_errors=True)
    shutil.copytree(os.path.join(ROOT, "evidence"), backup)
    try:
        return detect_names(names, tier)
    finally:
        shutil.rmtree(os.path.join(ROOT, "evidence"))
        shutil.copytree(backup, os.path.join(ROOT, "evidence"))


def detect_names(names, tier):
    for name in names:
        d = os.path.join(SEEDED, name)
        meta = json.load(open(os.path.join(d, "meta.json")))
        if sh("git -C /repo status --porcelain --untracked-files=no").stdout.strip():
            print("/repo is not clean")
            return 2
        r = sh(f"git -C /repo apply {d}/patch.diff")
        if r.returncode != 0:
            print(f"{name}: patch does not apply: {r.stdout}")
            continue
        try:
            for cid in meta["checks"]:
                t0 = time.time()
                r = sh(f"{ROOT}/check {cid} {tier}")
                out = r.stdout
                rec = {"check": cid, "tier": tier, "exit": r.returncode, "seconds": round(time.time() - t0)}
                m = re.search(r"^VIOLATION .*$", out, re.M)
                rec["violation_line"] = bool(m)
                for key in ("rule", "witness", "detail"):
                    m = re.search(r"^  %s=(.*)$" % key, out, re.M)
                    if m:
                        v = m.group(1)
                        if key in ("rule", "witness"):
                            v = v.split(" locus=")[0] if key == "rule" else v
                        rec[key] = v[:300]
                meta["detection"] = [x for x in meta["detection"] if not (x["check"] == cid and x["tier"] == tier)] + [rec]
                print(f"{name}: {cid} {tier} exit={rec['exit']} {rec['seconds']}s rule={rec.get('rule')} witness={rec.get('witness', '')[:120]}")
        finally:
            sh("git -C /repo checkout -- .")
        json.dump(meta, open(os.path.join(d, "meta.json"), "w"), indent=1, ensure_ascii=False)
    return 0


def table(_argv):
    print("| seed | property | needs to manifest | check (tier) | result | rule | witness |")
    print("|---|---|---|---|---|---|---|")
    for name in sorted(os.listdir(SEEDED)):
        meta = json.load(open(os.path.join(SEEDED, name, "meta.json")))
        for rec in meta["detection"]:
            res = "VIOLATION" if rec["exit"] == 1 and rec.get("violation_line") else ("missed" if rec["exit"] == 0 else "exit %d" % rec["exit"])
            w = rec.get("witness", "").replace("|", "\\|")[:70]
            print(f"| {name} | {meta['property']} | {meta['needs_to_manifest'][:110]} | {rec['check']} ({rec['tier']}, {rec['seconds']} s) | {res} | {rec.get('rule', '')} | {w} |")
    return 0


if __name__ == "__main__":
    if len(sys.argv) < 2:
        print(__doc__)
        sys.exit(2)
    sys.exit({"keep": keep, "detect": detect, "table": table}[sys.argv[1]](sys.argv[2:]))
